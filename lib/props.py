# Per-property configuration of /verif/check.  Harness ids are "<harness file>::<fn name>".

A_TOOLS = "A-TOOLS: Kani 0.68 / CBMC 6.11 / CaDiCaL are correct; rustc MIR of the scratch copy equals the MIR cargo builds from /repo (same sources, same Cargo.lock)"
A_SC = "A-SC: atomics are sequentially consistent single-copy words; Ordering arguments and fences are invisible to the verifier"
A_RG = "A-RG: soundness of rely/guarantee reasoning with additive ownership tokens (Jones/Owicki-Gries) and of the stutter lemma for CAS-retry loops (DESIGN 2.4-2.5); reflexivity/transitivity of the rely are checked, the meta-theorem is not"
A_EBR = "A-EBR: a closure handed to Guard::defer_unchecked runs exactly once, after every critical section active at the call has ended (C13+C15, themselves only partly decided)"
A_RANGE = "A-RANGE: strong/weak counts stay below 2^28 (no carry between count-word fields; `as u32` casts exact). The crate does NOT enforce this on its increment paths: 2^29-2 leaked (mem::forget) clones wrap the 29-bit fields from safe code (native demo replay/f13_count_overflow_demo.rs); outside the checked domain, recorded as an observation in known_findings.txt. (The bulk constructors, which used to truncate a count >= 2^29, are repaired - F13 - and checked for EVERY count by c10_new_many_iter_any_count_partial.)"
A_ADDR = "A-ADDR: object addresses are aligned for their type and below 2^60 (the crate's own requirement for the 4 timestamp bits)"
A_PARAM = "A-PARAM: harness node types stand for every T: RcObject (parametricity); user pop_edges/Drop obey the trait's safety contract"

PROPS = {}

PROPS["C12"] = dict(
    title="count-word fields independent; modular epoch test errs only to 'too recent'",
    level="proof",
    modules=["utils_state_h.rs"],
    contract_groups=["state", "modular"],
    kani=dict(quick=["utils_state_h.rs::" + h for h in [
        "c12_state_from_raw", "c12_state_epoch", "c12_state_strong", "c12_state_weak", "c12_state_destructed", "c12_state_with_epoch",
        "c12_state_add_strong", "c12_state_sub_strong", "c12_state_add_weak", "c12_state_with_destructed",
        "c12_state_with_weaked", "c12_state_as_raw",
        "c12_state_from_raw_x", "c12_state_epoch_x", "c12_state_strong_x", "c12_state_weak_x", "c12_state_destructed_x", "c12_state_with_epoch_x",
        "c12_state_add_strong_x", "c12_state_sub_strong_x", "c12_state_add_weak_x", "c12_state_with_destructed_x",
        "c12_state_with_weaked_x", "c12_state_as_raw_x", "c12_state_fields_partition", "c12_state_raw_arith",
        "c12_modular_trans", "c12_modular_inver", "c12_modular_le", "c12_modular_trans_x", "c12_modular_inver_x", "c12_modular_le_x", "c12_modular_max3",
        "c12_window_theorem", "c12_window_skew"]]),
    functions_under_contract=["State::{from_raw,epoch,strong,weak,destructed,weaked,with_epoch,add_strong,sub_strong,add_weak,with_destructed,with_weaked,as_raw}",
                              "Modular<4>::{new,trans,inver,le,max}"],
    expected_obligations=["C12.state.fields_partition", "C12.raw.add_count", "C12.raw.add_weak_count", "C12.raw.sub_weak_count",
                          "C12.raw.alloc_word", "C12.modular.max3.is_argument", "C12.modular.max3.newest", "C12.modular.max3.stored_stamp",
                          "C12.window.never_old_below_threshold", "C12.window.old_in_unambiguous_window",
                          "C12.window.old_only_if_age_mod_ge_3", "C12.window.skewed_stamp_not_old"],
    trusted_base=[A_TOOLS, "epochs < 2^62 (a 63-bit counter advancing by at most one per collection cannot reach it)"],
    assumptions=["epochs < 2^62", "stamps passed to Modular are 4-bit field values of epochs <= current+1 (what the code stores)"],
    loops="Modular::max folds over the 3-element array of its only call site: fully unwound (unwind 5) with unwinding assertions on => complete",
)

_T11 = ["t_u8", "t_u16", "t_u32", "t_u64", "t_u128", "t_a32", "t_a64", "t_a4096"]
_F11 = ["null", "is_null", "tag", "high_tag", "as_raw", "with_tag", "with_high_tag", "ptr_eq", "free_with_tag", "twin", "deref_real"]
PROPS["C11"] = dict(
    title="tagging never corrupts the address; internal epoch bits invisible",
    level="proof",
    modules=["pointers_h.rs"],
    contract_groups=["tagged"],
    kani=dict(quick=["pointers_h.rs::%s::%s" % (t, f) for t in _T11 for f in _F11] + ["pointers_h.rs::rawshared_forwards"]),
    functions_under_contract=["Tagged<T>::{null,is_null,tag,high_tag,as_raw,with_tag,with_high_tag,deref,deref_mut,as_ref,ptr_eq,from}", "pointers::with_tag", "pointers::low_bits (through its callers)", "RawShared::{tag,with_tag,as_raw,ptr_eq}"],
    expected_obligations=["C11.roundtrip.tag_truncated_to_alignment", "C11.with_tag.address_unchanged", "C11.timestamp.invisible_to_ptr_eq",
                          "C11.timestamp.invisible_to_is_null", "C11.null.tagged_timestamped_null_is_null", "C11.deref.ignores_tag_and_timestamp"],
    trusted_base=[A_TOOLS, A_ADDR],
    assumptions=["alignments are the enumerated set {1,2,4,8,16,32,64,4096}; words/tags/timestamps range over all of usize per alignment", A_ADDR],
)

_RG = ["rg_rely_reflexive_transitive", "rg_safety_lemmas", "rg_alloc", "rg_increment_strong_owner", "rg_increment_strong_protected",
       "rg_increment_strong_unguarded", "rg_is_not_destructed", "rg_decrement_strong_noguard", "rg_decrement_strong_guard", "rg_try_destruct",
       "rg_increment_weak_owner", "rg_increment_weak_protected", "rg_decrement_weak_noguard", "rg_decrement_weak_guard", "rg_try_dealloc", "rg_dealloc_frees"]
PROPS["RG"] = dict(   # development aid: all L1 R/G contracts at once (not a property)
    title="(dev) all count-word R/G contracts", level="proof", modules=["utils_rg_h.rs", "internal_cut_h.rs"], contract_groups=[],
    kani=dict(quick=["utils_rg_h.rs::" + h for h in _RG]),
    stubbed_harnesses=(), trusted_base=[A_TOOLS, A_SC, A_RG, A_EBR, A_RANGE],
    kani_flags=["--no-assertion-reach-checks"],
)

_C08 = ["c08_compare_exchange", "c08_compare_exchange_weak", "c08_compare_exchange_tag", "c08_load", "c08_store", "c08_swap", "c08_take_drop_from", "c08_new"]
_L2S = ["l2_rc_ledger", "l2_rc_new_deref"]
_C10 = ["c10_new_many_0", "c10_new_many_1", "c10_new_many_2", "c10_new_many_3", "c10_new_many_8", "c10_new_many_iter", "c10_new_many_iter_any_count_partial", "c10_iter_next_drop_abort",
        "c10_weak_many_0", "c10_weak_many_1", "c10_weak_many_3", "c10_weak_many_8"]
_C19 = ["c19_rc", "c19_snapshot", "c19_partial_eq_not_reflexive"]
PROPS["L2S"] = dict(
    title="(dev) all strong.rs L2 contracts", level="proof", modules=["utils_rg_h.rs", "internal_cut_h.rs", "strong_h.rs"], contract_groups=[],
    kani=dict(quick=["strong_h.rs::" + h for h in _C08 + _L2S + _C10 + _C19 + ["c11_rc_snapshot_tags"]]),
    trusted_base=[A_TOOLS], kani_flags=["--no-assertion-reach-checks"],
)

_C09 = ["c09_compare_exchange", "c09_compare_exchange_weak", "c09_compare_exchange_tag", "c09_load_store_swap", "c09_drop_from_get_mut"]
_L2W = ["l2_weak_ledger", "c05_weak_upgrade", "c05_wsnap_upgrade", "c11_weak_tags"]
PROPS["L2W"] = dict(
    title="(dev) all weak.rs L2 contracts", level="proof", modules=["utils_rg_h.rs", "internal_cut_h.rs", "weak_h.rs"], contract_groups=[],
    kani=dict(quick=["weak_h.rs::" + h for h in _C09 + _L2W]),
    trusted_base=[A_TOOLS], kani_flags=["--no-assertion-reach-checks"],
)

_DISP = ["dispose_chain_level", "dispose_leaf_any_depth", "dispose_null", "dispose_entry", "c06_chain_induction_step"]
PROPS["DISP"] = dict(
    title="(dev) dispose_general_node one-level contracts", level="proof", modules=["utils_state_h.rs", "utils_dispose_h.rs", "internal_cut_h.rs"], contract_groups=["state", "modular"],
    kani=dict(quick=["utils_dispose_h.rs::" + h for h in _DISP]),
    trusted_base=[A_TOOLS], kani_flags=["--no-assertion-reach-checks"],
)


# =================================================================================================
# Real properties, assembled from the unit lists above
# =================================================================================================
def _h(f, names):
    return [f + "::" + n for n in names]

_RGF = "utils_rg_h.rs"
_RG_LEMMAS = ["rg_rely_reflexive_transitive", "rg_safety_lemmas"]
_RG_STRONG = ["rg_alloc", "rg_increment_strong_owner", "rg_increment_strong_protected", "rg_increment_strong_unguarded",
              "rg_is_not_destructed", "rg_decrement_strong_noguard", "rg_decrement_strong_guard", "rg_try_destruct"]
_RG_WEAK = ["rg_increment_weak_owner", "rg_increment_weak_protected", "rg_decrement_weak_noguard", "rg_decrement_weak_guard",
            "rg_try_dealloc", "rg_dealloc_frees"]
_DISP_CORE = ["dispose_chain_level", "dispose_null_edge_then_child", "dispose_second_edge_after_long_first_edge", "dispose_recursion_depth_argument", "dispose_leaf_any_depth", "dispose_null", "dispose_entry"]
_MODS_ALL = ["utils_state_h.rs", "utils_rg_h.rs", "utils_dispose_h.rs", "internal_cut_h.rs", "strong_h.rs", "weak_h.rs"]
_FAST = ["--no-assertion-reach-checks", "--no-assert-contracts"]
_L1_FUNCS = ["RcInner::{alloc,dealloc,increment_strong,is_not_destructed,decrement_strong,try_destruct,increment_weak,decrement_weak,try_dealloc}",
             "dispose", "dispose_general_node (one level: chain node at depth 1023 + leaf at symbolic depth)"]
_STUTTER = ("CAS-retry loops (decrement_strong, is_not_destructed, try_destruct, increment_weak, increment_strong, cascade CAS, AtomicRc/AtomicWeak CAS): "
            "unbounded by the stutter lemma (DESIGN 2.5) - environment interference budget B (quick 2, thorough 3), unwound B+4 with unwinding assertions on; "
            "a stated assumption (A-RG), not a verifier-closed loop")

PROPS["C01"] = dict(
    title="a strong reference keeps its object alive", level="proof",
    modules=_MODS_ALL, contract_groups=["state", "modular"],
    kani=dict(quick=_h(_RGF, _RG_LEMMAS + _RG_STRONG + _RG_WEAK) + _h("utils_dispose_h.rs", ["dispose_chain_level", "dispose_leaf_any_depth"])
              + _h("strong_h.rs", ["l2_rc_ledger", "l2_rc_new_deref", "c08_compare_exchange", "c08_store", "c08_swap", "c08_take_drop_from", "c08_new", "c10_iter_next_drop_abort", "c10_weak_many_3", "c11_rc_snapshot_tags"])
              + _h("weak_h.rs", ["c05_weak_upgrade"])),
    kani_flags=_FAST, loops=_STUTTER,
    functions_under_contract=_L1_FUNCS + ["Rc::{new,clone,from_raw,into_raw,finalize,drop,downgrade,snapshot,as_ref,deref}", "Snapshot::counted", "Weak::upgrade",
                                          "AtomicRc::{new,store,swap,compare_exchange,take,drop,from}", "NewRcIter::{next,drop,abort}"],
    expected_obligations=["C01.lemma.owner_implies_alive", "C01.step.invariant_preserved", "C01.inc.owner_gains_exactly_one", "C01.dec.releases_exactly_count",
                          "C05.upgrade.success_gains_exactly_one_owner", "C01.try_destruct.disposes_only_after_zero_observed_by_cas", "C01.rc_clone.exactly_one_increment",
                          "C04.rc_drop.releases_exactly_one_share", "C08.cas.ownership_moves_without_count_change", "C01.rg.rely_transitive"],
    trusted_base=[A_TOOLS, A_SC, A_RG, A_EBR, A_RANGE, A_ADDR, A_PARAM],
    assumptions=[A_SC, A_RG, A_EBR, A_RANGE, "the protocol-level composition (every execution is an interleaving of steps each satisfying its guarantee) is the textbook R/G theorem, not mechanised"],
    explanation="per-function rely/guarantee contracts on the real count-word functions + owner-ledger contracts of every API operation that creates or consumes an owner; the safety lemma O>0 => not destructed/dropped/freed is proved over the invariant",
)
PROPS["C03"] = dict(
    title="a weak reference keeps the block allocated", level="proof",
    modules=_MODS_ALL, contract_groups=["state", "modular"],
    kani=dict(quick=_h(_RGF, _RG_LEMMAS + _RG_WEAK + ["rg_increment_strong_unguarded"]) + _h("utils_dispose_h.rs", ["dispose_chain_level", "dispose_leaf_any_depth"])
              + _h("weak_h.rs", ["l2_weak_ledger", "c09_compare_exchange", "c09_load_store_swap", "c09_drop_from_get_mut", "c05_weak_upgrade", "c05_wsnap_upgrade", "c11_weak_tags"])
              + _h("strong_h.rs", ["l2_rc_ledger", "c10_weak_many_1", "c10_weak_many_3"])),
    kani_flags=_FAST, loops=_STUTTER,
    functions_under_contract=_L1_FUNCS + ["Weak::{clone,drop,from_raw,into_raw,snapshot,upgrade}", "WeakSnapshot::{counted,upgrade}", "Rc::{downgrade,weak_many}", "AtomicWeak::{store,swap,compare_exchange,drop,from,get_mut}"],
    expected_obligations=["C03.lemma.weak_owner_implies_allocated", "C03.step.no_access_after_free", "C03.incw.gains_exactly_count", "C03.decw.releases_exactly_one",
                          "C03.try_dealloc.frees_only_at_zero", "C03.cascade.weaked_node_releases_implicit_share", "C03.weak_clone.exactly_one_weak_share", "C04.weak_drop.releases_exactly_one_share"],
    trusted_base=[A_TOOLS, A_SC, A_RG, A_EBR, A_RANGE, A_ADDR, A_PARAM],
    assumptions=[A_SC, A_RG, A_EBR + " - in particular: a WeakSnapshot's critical section blocks the deferred try_dealloc (PROTECTED rely), and try_dealloc runs when nobody can reach a block whose weak count is zero (QUIESCENT rely)", A_RANGE],
)
PROPS["C04"] = dict(
    title="destructed once, freed once, nothing leaks", level="proof",
    modules=_MODS_ALL, contract_groups=["state", "modular"],
    kani=dict(quick=_h(_RGF, _RG_LEMMAS + _RG_STRONG + _RG_WEAK) + _h("utils_dispose_h.rs", _DISP_CORE)
              + _h("strong_h.rs", ["l2_rc_ledger", "c08_take_drop_from", "c08_store", "c10_iter_next_drop_abort", "c10_new_many_0", "c10_new_many_iter", "c11_rc_snapshot_tags"])
              + _h("weak_h.rs", ["l2_weak_ledger", "c09_drop_from_get_mut", "c09_load_store_swap", "c11_weak_tags"])),
    kani_flags=_FAST, loops=_STUTTER,
    functions_under_contract=_L1_FUNCS + ["Drop for Rc/AtomicRc/Weak/AtomicWeak/NewRcIter", "Rc::finalize", "NewRcIter::abort", "AtomicRc::store", "AtomicWeak::store"],
    expected_obligations=["C04.upgrade.failed_upgrade_leaves_no_trace_on_the_count_word", "C04.lemma.pop_edges_before_drop", "C04.lemma.zero_count_has_pending_attempt", "C04.lemma.zero_weak_has_pending_dealloc", "C04.dec.defers_try_destruct_iff_hit_zero",
                          "C04.dec.pending_attempt_handed_to_ebr", "C04.try_destruct.exactly_one_outcome", "C04.free.at_most_once", "C04.cascade.pop_edges_then_drop_once_each",
                          "C04.rc_drop.releases_exactly_one_share", "C04.weak_drop.releases_exactly_one_share", "C04.atomicrc_drop.releases_exactly_its_share", "C07.depth.cap_redefers_exactly_once"],
    trusted_base=[A_TOOLS, A_SC, A_RG, A_EBR, A_RANGE, A_PARAM],
    assumptions=[A_SC, A_RG, A_EBR, "liveness ('after a bounded number of rounds nothing is live') is reduced to the no-leak invariant at every function exit (zero count => exactly one pending attempt handed to EBR) plus A-EBR's 'every deferred closure runs'; 'eventually' itself is not decided", "acyclic use (the property's own premise)"],
    explanation="safety half proved (once-only flags, order, exact release by every Drop, no-leak invariant at every exit); the liveness half is the stated composition with C15",
)
PROPS["C05"] = dict(
    title="upgrade succeeds iff not destructed; never resurrects", level="proof",
    modules=_MODS_ALL, contract_groups=["state", "modular"],
    kani=dict(quick=_h(_RGF, _RG_LEMMAS + ["rg_increment_strong_unguarded", "rg_increment_strong_owner", "rg_is_not_destructed", "rg_try_destruct"])
              + _h("utils_dispose_h.rs", ["dispose_chain_level", "dispose_leaf_any_depth"]) + _h("weak_h.rs", ["c05_weak_upgrade", "c05_wsnap_upgrade"])),
    kani_flags=_FAST, loops=_STUTTER,
    functions_under_contract=["RcInner::{increment_strong,is_not_destructed,try_destruct}", "dispose_general_node (DESTRUCTED set by CAS before destruction, roots and cascade children)", "Weak::upgrade", "WeakSnapshot::upgrade"],
    expected_obligations=["C05.upgrade.success_only_if_not_destructed", "C05.upgrade.failure_only_if_destructed", "C05.upgrade.success_gains_exactly_one_owner",
                          "C05.wsnap_upgrade.result_iff_not_destructed_at_lin_point", "C05.lemma.destruction_begun_implies_destructed", "C05.cascade.destructed_set_before_destruction",
                          "C05.upgrade.null_upgrades_to_null", "C05.upgrade.some_iff_increment_succeeded", "C05.wsnap_upgrade.some_iff_not_destructed"],
    trusted_base=[A_TOOLS, A_SC, A_RG, A_EBR, A_RANGE],
    assumptions=[A_SC, A_RG, "'once failed, always fails' and 'succeeds while an owner exists' follow from DESTRUCTED being monotone under the rely and from lemma owner_implies_alive (both checked); the history-level statement is their composition"],
)
PROPS["C02"] = dict(
    title="a Snapshot stays valid for its critical section", level="other",
    modules=_MODS_ALL + ["epoch_h.rs", "internal_h.rs", "list_h.rs", "queue_h.rs", "deferred_h.rs"], contract_groups=["state", "modular", "epoch", "expired"],
    kani=dict(quick=_h(_RGF, ["rg_decrement_strong_noguard", "rg_decrement_strong_guard", "rg_is_not_destructed", "rg_try_destruct", "rg_increment_strong_protected"])
              + _h("utils_dispose_h.rs", _DISP_CORE) + _h("utils_state_h.rs", ["c12_window_theorem", "c12_window_skew", "c12_modular_max3", "c02_stamp_inside_critical_section_blocks_immediate_reclamation"])
              + _h("strong_h.rs", ["c08_store", "c08_swap", "c08_compare_exchange", "c08_compare_exchange_weak", "c08_compare_exchange_tag", "c08_load"])
              + _h("weak_h.rs", ["c05_wsnap_upgrade"])
              + _h("epoch_h.rs", ["c13_expiry_arith"]) + _h("internal_h.rs", ["c13_is_expired", "c13_is_expired_x", "c13_push_bag"])),
    kani_flags=_FAST, loops=_STUTTER,
    functions_under_contract=["SealedBag::is_expired", "Global::push_bag (seal = global epoch read at sealing)", "RcInner::decrement_strong (stamp = epoch read before the CAS; zero => deferred try_destruct only)", "AtomicRc::{store,swap,compare_exchange*,compare_exchange_tag} (timestamp on every non-null write)",
                              "dispose_general_node (child reclaimed in the same pass only if newest(parent,link,child) stamp is old enough; merged stamp written)", "RcInner::is_not_destructed (token by CAS from zero)", "Modular::{le,max}"],
    expected_obligations=["C02.dec.stamp_is_epoch_read_before_cas", "C02.dec.stamped_epoch_is_read_inside_a_critical_section", "C02.cascade.second_edge_stamp_judged_against_the_current_clock", "C02.dec.never_destructs_directly", "C02.cascade.child_stamp_is_newest_of_parent_link_child", "C12.site.immediate_only_if_stamp_old_enough",
                          "C02.cascade.recent_node_redeferred_exactly_once", "C02.wsnap_upgrade.token_added_when_zero", "C08.store.installs_ptr_tag_exact_timestamped", "C12.window.never_old_below_threshold",
                          "C02.lemma.stamp_taken_inside_cs_makes_every_decision_inside_cs_recent", "C02.wsnap_upgrade.success_leaves_stamp_of_epoch_read_in_this_call"],
    trusted_base=[A_TOOLS, A_SC, A_RG, A_EBR, "A-PAPER: the CIRC Snapshot-validity theorem (composition of the four stamp mechanisms over epochs and critical sections) is NOT decided here"],
    assumptions=[A_SC, A_EBR, "A-PAPER (composition theorem of the CIRC paper)"],
    explanation="The schedule-quantified statement is the CIRC paper's main theorem; no per-function contract composes it. Decided here, for all inputs, are the four facts that theorem consumes, each a postcondition on the real code: "
                "(1) decrement stamps the epoch read before its CAS and never destructs directly; (2) every non-null write to an AtomicRc carries the current epoch; (3) the cascade reclaims a child immediately only if the newest of "
                "(parent, link, child) stamps is >= 3 epochs old and writes the merged stamp, otherwise defers exactly once; (4) WeakSnapshot::upgrade leaves a token (count zero) or the stamp of an epoch read in the call on the count word (this clause was added after defect F6). "
                "Plus the arithmetic core of the composition as a lemma: a stamp taken while a thread is pinned makes every cascade decision taken inside that critical section 'recent', whatever the other two stamps are "
                "(c02_stamp_inside_critical_section_blocks_immediate_reclamation). A change weakening any of them fails a named obligation; a protocol flaw that keeps all contracts intact is outside this check.",
)
PROPS["C06"] = dict(
    title="reclaiming a linked structure needs grace periods independent of its length", level="proof",
    modules=["utils_state_h.rs", "utils_dispose_h.rs", "internal_cut_h.rs"], contract_groups=["state", "modular"],
    kani=dict(quick=_h("utils_dispose_h.rs", _DISP_CORE + ["c06_chain_induction_step"]) + _h("utils_state_h.rs", ["c12_window_theorem", "c12_modular_max3"])),
    kani_flags=_FAST, loops=_STUTTER + "; recursion of dispose_general_node: never unwound - cut by the code's own depth >= 1024 branch (chain node at depth 1023) and by a leaf at symbolic depth; the argument over chain length is the induction lemma c06_chain_induction_step",
    functions_under_contract=["dispose_general_node", "dispose", "Modular::{le,max}"],
    expected_obligations=["C06.cascade.zero_child_handled_in_same_pass_with_depth_plus_one", "C06.cascade.shared_child_skipped_and_survives", "C06.cascade.child_decremented_exactly_once",
                          "C06.root.always_destructed_in_its_pass", "C06.induction.attempts_is_ceil_n_over_1024", "C06.dispose.enters_cascade_at_depth_zero", "C02.cascade.recent_node_redeferred_exactly_once"],
    trusted_base=[A_TOOLS, A_SC, A_EBR, A_PARAM, "the one-level contract is proved at depth 1023 (chain) and at every depth (leaf); that the child-handling block does not depend on depth other than through `depth + 1` is what the two together establish for the monomorphic function"],
    assumptions=["'links at least a few epochs old' is decided for ages inside the unambiguous 4-bit window (3..13 epochs, C12 window theorem); older stamps alias and err to 'too recent': a link 14-18 epochs old reads as fresh, the merged stamp propagates down, and a chain built one link per epoch is reclaimed one node per epoch (audit observation, natively measured; latency only, never safety) - NOT a contract violation of any function and not detected", "epochs-elapsed is not measured (no execution): only the structural reason for the bound is proved - every attempt destructs up to 1024 levels in one pass and leaves at most one deferred attempt, so n nodes cost ceil(n/1024) grace periods of A-EBR", "chains/trees: one outgoing edge per node in the chain harness (tree shapes: thorough tier)"],
)
_L3M_FWD = ["epoch_h.rs", "internal_h.rs", "list_h.rs", "queue_h.rs", "deferred_h.rs"]
PROPS["C07"] = dict(
    harness_timeout=dict(quick=1500, thorough=5400),
    title="destroying long or deep structures never overflows the stack", level="proof",
    modules=["utils_state_h.rs", "utils_dispose_h.rs", "internal_cut_h.rs"] + _L3M_FWD, contract_groups=["state", "modular", "epoch", "expired"],
    kani=dict(quick=_h("utils_dispose_h.rs", _DISP_CORE + ["c06_chain_induction_step"]) + _h("internal_h.rs", ["c15_defer", "c15_flush", "c16_unpin"])),
    kani_flags=_FAST, loops=_STUTTER,
    functions_under_contract=["dispose_general_node", "dispose", "Local::{defer,flush,unpin} (deferred functions run only from the outermost unpin, never on top of a deferring frame)"],
    expected_obligations=["C07.depth.cap_redefers_exactly_once", "C07.depth.cap_touches_nothing_else", "C07.depth.child_at_1024_not_destructed_here", "C06.cascade.zero_child_handled_in_same_pass_with_depth_plus_one", "C06.dispose.enters_cascade_at_depth_zero", "C07.depth.recursive_call_passes_depth_plus_one",
                          "C07.defer.never_collects_reentrantly", "C07.flush.never_collects_reentrantly", "C15.unpin.runs_scheduled_collection_from_outermost_unpin"],
    trusted_base=["audit observation: 1024 frames overflow thread stacks below ~1 MiB (debug) / 256 KiB (release) - measured natively with thread::Builder::stack_size; default 2 MiB / 8 MiB stacks pass", A_TOOLS, A_PARAM, "the translation '1025 frames of dispose_general_node fit every legal stack size' depends on frame size and user Drop/pop_edges code and is NOT decidable by contracts"],
    assumptions=["recursion depth <= 1025 frames is proved (every call at depth >= 1024 returns without recursing, for every depth; the call at 1023 passes 1024; dispose enters at 0; the deferred closure is stored, not run); bytes of stack per frame are not"],
)
PROPS["C08"] = dict(
    title="AtomicRc is a linearizable (pointer, tag) cell with exact ownership transfer", level="proof",
    modules=["utils_rg_h.rs", "internal_cut_h.rs", "strong_h.rs"], contract_groups=[],
    kani=dict(quick=_h("strong_h.rs", _C08)),
    kani_flags=_FAST, loops=_STUTTER,
    functions_under_contract=["AtomicRc::{new,null,load,store,swap,compare_exchange,compare_exchange_weak,compare_exchange_tag,take,drop,from}", "Tagged<RcInner<T>>::with_timestamp"],
    expected_obligations=["C08.cas.ok_only_if_cell_ptr_eq_expected", "C08.cas.err_only_if_not_ptr_eq_timestamp_never_fails", "C08.cas.ok_returns_previous_content", "C08.cas.err_returns_desired_untouched",
                          "C08.cas.ok_installs_desired_tag_exact_timestamped", "C08.cas.ownership_moves_without_count_change", "C08.store.releases_exactly_old_content", "C08.swap.returns_previous_content",
                          "C08.cas_tag.ok_writes_pointer_with_truncated_tag", "C08.load.returns_value_read_by_single_access", "C08.take.leaves_null"],
    trusted_base=[A_TOOLS, A_SC, A_RG, A_ADDR, "linearizability from the per-operation contracts is the standard lemma 'an operation whose whole shared effect is one atomic RMW/load on one word and whose result is a function of that access's read value linearizes at that access' - stated, not mechanised"],
    assumptions=["cell / expected / desired range over {null, A, B} x all 8 tags x all 16 timestamps, all epochs; environment interference on the link word between my accesses (budget B)", "compare_exchange_weak may fail spuriously: only Ok-side and ownership clauses are claimed for it"],
)
PROPS["C09"] = dict(
    title="AtomicWeak is a linearizable (pointer, tag) cell with exact ownership transfer", level="proof",
    modules=["utils_rg_h.rs", "internal_cut_h.rs", "weak_h.rs"], contract_groups=[],
    kani=dict(quick=_h("weak_h.rs", _C09)),
    kani_flags=_FAST, loops=_STUTTER,
    functions_under_contract=["AtomicWeak::{null,load,store,swap,compare_exchange,compare_exchange_weak,compare_exchange_tag,get_mut,drop,from}"],
    expected_obligations=["C09.cas.ok_only_if_cell_ptr_eq_expected", "C09.cas.err_only_if_not_ptr_eq_epoch_bits_invisible", "C09.cas.ok_returns_previous_content", "C09.cas.err_returns_desired_untouched",
                          "C09.cas.weak_counts_transferred_without_change", "C09.cas_tag.err_only_if_not_ptr_eq", "C09.store.releases_exactly_old_content", "C09.swap.returns_previous_content"],
    trusted_base=[A_TOOLS, A_SC, A_RG, A_ADDR, "single-RMW linearizability lemma (as C08)"],
    assumptions=["expected ranges over every word of the pool including every epoch-bit pattern (covers: loaded from the cell, downgraded from a Snapshot loaded at another epoch, taken from a Weak)"],
)
PROPS["C10"] = dict(
    title="bulk constructors hand out exactly the advertised number of owners", level="proof",
    modules=["utils_rg_h.rs", "internal_cut_h.rs", "strong_h.rs"], contract_groups=[],
    kani=dict(quick=_h("strong_h.rs", _C10) + _h(_RGF, ["rg_alloc", "rg_increment_weak_owner", "rg_decrement_strong_noguard", "rg_decrement_strong_guard"])),
    kani_flags=_FAST,
    loops="new_many / weak_many array construction: N in {0,1,2,3,8} fully unwound (unwind 10, assertions on); NewRcIter::next/drop/abort are loop-free over symbolic `remain` (every prefix and count follow by induction on calls)",
    functions_under_contract=["Rc::{new_many,new_many_iter,weak_many}", "NewRcIter::{next,abort,drop}", "RcInner::alloc", "RcInner::increment_weak"],
    expected_obligations=["C10.new_many_iter.never_returns_fewer_owners_than_it_hands_out", "C10.new_many.exactly_n_owners", "C10.new_many.zero_owners_object_released", "C10.new_many_iter.count_owners_all_unyielded", "C10.new_many_iter.zero_owners_object_released",
                          "C10.iter_next.yields_one_share", "C10.iter_drop.releases_exactly_remainder", "C10.iter_abort.releases_exactly_remainder_once", "C10.weak_many.adds_exactly_n_weak_shares",
                          "C10.weak_many.every_result_refers_to_receiver", "C10.alloc.word"],
    trusted_base=[A_TOOLS, A_RANGE, "'destructed when and only when the last owner is gone' is C01 + C04 applied to O = N"],
    assumptions=[A_RANGE + " - for new_many_iter the count itself is NOT under A-RANGE any more: c10_new_many_iter_any_count_partial covers every usize (partial correctness: the constructor may refuse by panicking, never truncate)", "N of new_many/weak_many ranges over the enumerated set {0,1,2,3,8} (a const generic cannot be symbolic; N >= 2^29 would need a 4 GiB array): new_many::<N> goes through the same strong_count_of(N) as new_many_iter; weak_many::<N> with N >= 2^29 stays under A-RANGE"],
)
PROPS["C19"] = dict(
    title="Eq/Ord/Hash of Rc and Snapshot follow the referent", level="proof",
    modules=["utils_rg_h.rs", "internal_cut_h.rs", "strong_h.rs"], contract_groups=[],
    kani=dict(quick=_h("strong_h.rs", _C19)),
    kani_flags=_FAST,
    loops="hashing writes <= 24 bytes into the recording Hasher: unwound 26 with unwinding assertions on => complete",
    functions_under_contract=["PartialEq/Eq/PartialOrd/Ord/Hash for Rc<T>", "PartialEq/Eq/PartialOrd/Ord/Hash for Snapshot<T>", "Rc::ptr_eq", "Snapshot::ptr_eq", "Rc::as_ref", "Snapshot::as_ref"],
    expected_obligations=["C19.eq.agrees_with_referent", "C19.cmp.agrees_with_referent", "C19.partial_cmp.agrees_with_referent", "C19.hash.same_stream_as_referent", "C19.null.distinct_and_smallest",
                          "C19.ptr_eq.identity_plus_tag", "C19.law.antisymmetric", "C19.law.transitive", "C19.law.equal_implies_equal_hash"],
    trusted_base=[A_TOOLS, A_ADDR, "two payload types (u8 field with derived Eq/Ord/Hash; a NaN-like type whose PartialEq is not reflexive) stand for every T by parametricity"],
    assumptions=["pointers range over {null, A, B} x all tags x all timestamps with symbolic payloads"],
)
# C11 and C12 gain the wrappers / the decision site
PROPS["C11"]["kani"]["quick"] += ["pointers_h.rs::c11_pointer_fmt_ignores_tag_and_timestamp"]
PROPS["C11"]["kani"]["thorough"] = ["strong_h.rs::c11_rc_pointer_fmt"]
PROPS["C11"]["modules"] = ["pointers_h.rs", "utils_rg_h.rs", "internal_cut_h.rs", "strong_h.rs", "weak_h.rs"]
PROPS["C11"]["kani"]["quick"] += _h("strong_h.rs", ["c11_rc_snapshot_tags", "l2_rc_new_deref"]) + _h("weak_h.rs", ["c11_weak_tags"])
PROPS["C11"]["functions_under_contract"] += ["Rc/Snapshot/Weak/WeakSnapshot::{tag,with_tag,is_null,ptr_eq}", "Rc/Snapshot::as_ref"]
PROPS["C11"]["expected_obligations"] += ["C11.rc.with_tag_truncates_keeps_address_and_timestamp", "C11.weak.with_tag_truncates_keeps_address_and_timestamp", "C11.rc_as_ref.ignores_tag_and_timestamp"]
PROPS["C11"]["assumptions"] += ["pointer formatting ({:p}) is proved for Tagged, Rc and Snapshot over addresses < 2^16 (digit loop bound), all tags and timestamps; Weak/WeakSnapshot/AtomicRc/AtomicWeak impls are the same one-liner over Tagged"]
PROPS["C11"]["expected_obligations"] += ["C11.fmt.pointer_formatting_ignores_tag_and_timestamp"]
PROPS["C12"]["modules"] = ["utils_state_h.rs", "utils_dispose_h.rs", "internal_cut_h.rs"]
PROPS["C12"]["kani"]["quick"] += _h("utils_dispose_h.rs", ["dispose_chain_level", "dispose_leaf_any_depth"])
PROPS["C12"]["fast_harnesses"] = _h("utils_dispose_h.rs", ["dispose_chain_level", "dispose_leaf_any_depth"])
PROPS["C12"]["expected_obligations"] += ["C12.site.immediate_only_if_stamp_old_enough", "C12.site.recent_only_if_stamp_not_old_enough", "C02.cascade.child_stamp_is_newest_of_parent_link_child"]
PROPS["C12"]["functions_under_contract"] += ["dispose_general_node (decision site)"]

_EPOCH = ["c14_epoch_starting", "c14_epoch_wrapping_sub", "c14_epoch_is_pinned", "c14_epoch_pinned", "c14_epoch_unpinned", "c14_epoch_successor", "c14_epoch_value", "c14_epoch_twin"]
PROPS["EP"] = dict(title="(dev) epoch", level="proof", modules=["epoch_h.rs"], contract_groups=["epoch"],
                   kani=dict(quick=_h("epoch_h.rs", _EPOCH + ["c13_expiry_arith"])), trusted_base=[A_TOOLS])
_L3A = ["c13_is_expired", "c13_is_expired_x", "c16_pin", "c16_unpin", "c16_repin", "c16_reactivate_after", "c14_repin_without_collect", "c15_handles", "c13_try_advance", "c14_try_advance_monotone"]
PROPS["L3"] = dict(title="(dev) internal.rs L3 contracts", level="proof", modules=["epoch_h.rs", "internal_h.rs", "list_h.rs", "queue_h.rs", "deferred_h.rs"], contract_groups=["epoch", "expired"],
                   kani=dict(quick=_h("internal_h.rs", _L3A)), trusted_base=[A_TOOLS], kani_flags=_FAST, harness_timeout=dict(quick=600, thorough=3600))
_DEFD = ["c15_deferred_s0_a1", "c15_deferred_s1_a1", "c15_deferred_s8_a8", "c15_deferred_s24_a1", "c15_deferred_s24_a8", "c15_deferred_s25_a1", "c15_deferred_s28_a1",
         "c15_deferred_s31_a1", "c15_deferred_s32_a8", "c15_deferred_s16_a16", "c15_deferred_s32_a32", "c15_deferred_s64_a8", "c15_deferred_owning_closure", "c15_tagged_call_contract"]
PROPS["DEFD"] = dict(title="(dev) deferred", level="proof", modules=["deferred_h.rs"], contract_groups=[],
                   kani=dict(quick=_h("deferred_h.rs", _DEFD)), trusted_base=[A_TOOLS])
_L3B = ["c15_bag", "c13_push_bag", "c13_collect", "c15_defer", "c15_flush", "c15_finalize"]
PROPS["L3C"] = dict(title="(dev) handle/register", level="proof", modules=["epoch_h.rs", "internal_h.rs", "list_h.rs", "queue_h.rs", "deferred_h.rs"], contract_groups=["epoch", "expired"], kani=dict(quick=["internal_h.rs::c15_local_handle", "internal_h.rs::c18_register", "internal_h.rs::c15_queue_drop_runs_leftovers"]), trusted_base=[], kani_flags=_FAST)
PROPS["L3B"] = dict(title="(dev) internal.rs bags/defer/collect", level="proof", modules=["epoch_h.rs", "internal_h.rs", "list_h.rs", "queue_h.rs", "deferred_h.rs"], contract_groups=["epoch", "expired"],
                   kani=dict(quick=_h("internal_h.rs", ["c13_collect", "c15_finalize"])), trusted_base=[A_TOOLS], kani_flags=_FAST)
PROPS["Q"] = dict(title="(dev) queue", level="other", modules=["queue_h.rs"], contract_groups=[], kani=dict(quick=_h("queue_h.rs", ["c17_queue_sequential"])), trusted_base=[A_TOOLS], kani_flags=_FAST)
PROPS["LST"] = dict(title="(dev) list", level="other", modules=["list_h.rs"], contract_groups=[], kani=dict(quick=_h("list_h.rs", ["c18_iter_sequential", "c18_insert_delete"])), trusted_base=[A_TOOLS], kani_flags=_FAST)
_L3M = ["epoch_h.rs", "internal_h.rs", "list_h.rs", "queue_h.rs", "deferred_h.rs"]
_L3G = ["epoch", "expired"]
_INT = "internal_h.rs"
PROPS["C13"] = dict(
    harness_timeout=dict(quick=1500, thorough=5400),
    title="deferred work never runs while a critical section active at deferral is active", level="other",
    modules=_L3M, contract_groups=_L3G,
    kani=dict(quick=_h("epoch_h.rs", ["c13_expiry_arith", "c14_epoch_wrapping_sub", "c14_epoch_twin"]) + _h(_INT, ["c13_is_expired", "c13_is_expired_x", "c16_pin", "c16_unpin", "c13_try_advance",
              "c14_try_advance_monotone", "c13_push_bag", "c13_collect", "c15_defer", "c15_flush", "c16_repin"])),
    kani_flags=_FAST,
    loops="pin's validation loop: environment advances the clock between its accesses (budget B), unwound B+4 with unwinding assertions on (stutter lemma); registry scan and bag loops: bounded (see bounded)",
    bounded=["Global::collect: global queue of <= 2 sealed bags (queue abstracted by its C17 contract stub)", "Global::try_advance: registry of 2 hand-built participants", "bags of <= 2 functions"],
    functions_under_contract=["SealedBag::is_expired", "Epoch::wrapping_sub", "Global::{push_bag,collect,try_advance}", "Local::{pin,unpin,defer,flush,schedule_collection}"],
    expected_obligations=["C13.expiry.wrapping_sub_ge_3_iff_three_advances", "C13.is_expired.post", "C13.pin.validated_against_global_epoch_after_publication", "C13.unpin.clears_pinned_bit_only_for_outermost_guard",
                          "C13.advance.refuses_while_a_pinned_participant_lags", "C13.push_bag.sealed_with_global_epoch_read_at_sealing", "C13.collect.first_bag_runs_iff_expired",
                          "C13.collect.fifo_stops_at_first_unexpired_bag", "C13.defer.runs_nothing", "C13.unpin.collects_while_still_pinned", "C13.defer.keeps_the_announced_epoch_inside_a_critical_section"],
    trusted_base=[A_TOOLS, A_SC + " - fence placement and memory orderings (the SeqCst fence in pin/try_advance/push_bag) are invisible to the verifier", "A-EBR-THM: the classical 3-epoch theorem (pinned participants lag the clock by <= 1, so age >= 3 implies every critical section active at sealing has ended) is NOT decided here"],
    assumptions=[A_SC, "A-EBR-THM (composition)", "bounded configurations as listed"],
    explanation="The schedule-quantified statement is the classical EBR safety theorem; no per-function contract composes it. Decided here, for all inputs of the stated configurations, are the facts it consumes: is_expired <=> >= 3 clock steps; "
                "a bag is sealed with the global epoch read when it is sealed; collect runs a bag's functions only if is_expired held for it, FIFO, stopping at the first unexpired one; try_advance refuses while a pinned participant lags; "
                "pin returns only after validating its published epoch against a later load of the clock; unpin clears the pinned bit only for the outermost guard. A change weakening any of them fails a named obligation.",
)
PROPS["C14"] = dict(
    harness_timeout=dict(quick=1500, thorough=5400),
    title="epoch clock is monotone; a pinned participant sees at most one advance", level="proof",
    modules=["utils_state_h.rs", "utils_dispose_h.rs", "internal_cut_h.rs"] + _L3M, contract_groups=["state", "modular", "epoch", "expired"],
    kani=dict(quick=_h("epoch_h.rs", _EPOCH) + _h(_INT, ["c16_pin", "c14_repin_without_collect", "c13_try_advance", "c14_try_advance_monotone", "c14_try_advance_monotone_under_reannouncement", "c16_repin", "c16_unpin", "c15_flush", "c15_defer", "c13_push_bag"])
              + _h("utils_dispose_h.rs", ["dispose_periodic_reannouncement"])),
    kani_flags=_FAST,
    loops="pin's validation loop by the stutter lemma (budget B); the registry scan inside try_advance: registry of 2 hand-built participants (bounded, see bounded)",
    bounded=["Global::try_advance: registry of 2 hand-built participants (the scan itself is C18's sequential contract)"],
    functions_under_contract=["Epoch::{starting,wrapping_sub,is_pinned,pinned,unpinned,successor,value}", "AtomicEpoch::{new,load,store,compare_exchange}", "Global::try_advance", "Local::{pin,repin,repin_without_collect,unpin,schedule_collection}"],
    expected_obligations=["C14.epoch.successor.post", "C14.clock.successor_is_single_step_forward", "C14.advance.single_step", "C14.advance.monotone_single_step", "C14.advance.only_to_successor_of_callers_epoch",
                          "C14.advance.pinned_participant_sees_at_most_one_advance", "C14.pin.announced_epoch_is_current_at_return", "C14.pin.never_moves_the_clock", "C14.repin_wc.announces_global_epoch_just_read_pinned",
                          "C14.unpin.never_moves_the_clock", "C13.push_bag.runs_nothing_and_never_moves_the_clock", "C14.advance.never_steps_back_even_if_callers_announcement_moves_during_the_scan"],
    trusted_base=[A_TOOLS, A_SC, A_RG + " - here: invariant J (while a validated participant stays pinned at e the clock is e or e+1) is assumed of the environment and shown preserved by every function that writes the clock (try_advance is the only one)"],
    assumptions=[A_SC, A_RG, "multi-advancer schedules are covered by the R/G step (c14_try_advance_monotone), not enumerated"],
)
PROPS["C15"] = dict(
    harness_timeout=dict(quick=1500, thorough=5400),
    title="every deferred function runs exactly once, even across thread exit", level="proof",
    modules=_L3M, contract_groups=_L3G,
    kani=dict(quick=_h("deferred_h.rs", _DEFD) + _h(_INT, ["c15_bag", "c15_defer", "c15_flush", "c15_finalize", "c13_push_bag", "c13_collect", "c16_unpin", "c16_repin", "c15_handles", "c15_guard_defer", "c15_local_handle", "c18_register"]),
              thorough=_h(_INT, ["c15_queue_drop_runs_leftovers"])),
    kani_flags=_FAST,
    loops="Bag::drop drains <= 3 stored functions; Local::defer's retry loop; collect's trial loop with <= 2 bags: all unwound with unwinding assertions on (complete for the bounded sizes)",
    bounded=["Bag capacity 2-3 instead of MAX_OBJECTS = 64 (try_push / Drop / defer / flush are otherwise symbolic in the fill level)", "global queue of <= 2 sealed bags", "closure size/alignment classes enumerated: sizes {0,1,8,24,25,28,31,32,64} x aligns {1,8,16,32}"],
    functions_under_contract=["Collector::register", "Local::register", "LocalHandle::{pin,drop}", "Queue::drop (thorough)", "Deferred::{new,call}", "Bag::{new,is_empty,try_push,seal,drop}", "Guard::{defer_unchecked,flush,incr_manual_collection}", "Local::{defer,flush,push_to_global,schedule_collection,incr_advance,incr_manual_collection,acquire_handle,release_handle,finalize,unpin}", "Global::{push_bag,collect}"],
    expected_obligations=["C15.deferred.call_runs_exactly_once", "C15.deferred.captured_data_intact", "C15.deferred.captures_dropped_exactly_once", "C15.bag.drop_runs_each_once_in_order", "C15.bag.try_push_err_returns_the_same_function",
                          "C15.defer.function_is_last_in_bag_exactly_once", "C15.defer.full_bag_goes_to_global_queue_intact", "C15.flush.moves_local_bag_to_global_queue_iff_nonempty", "C15.push_bag.content_moves_intact",
                          "C15.finalize.hands_local_bag_to_global_queue", "C15.finalize.releases_exactly_one_collector_reference", "C15.collect.each_function_at_most_once", "C15.unpin.runs_scheduled_collection_from_outermost_unpin",
                          "C15.guard_defer.function_runs_exactly_once_with_its_captures", "C15.handle_drop.releases_exactly_one_handle_share", "C15.register.participant_keeps_its_collector_alive"],
    trusted_base=[A_TOOLS, "liveness ('after finitely many rounds') and real thread exit (TLS destructors) are outside the family: what is proved is the conservation invariant - every deferred function is in exactly one of {local bag, a sealed bag in the global queue, executed} after each operation"],
    assumptions=["'eventually' is not decided (a change that only stops progress - e.g. never scheduling a collection when the local bag is empty - is not a contract violation of any single function and is NOT detected)", "Queue::drop running what is left at collector teardown: thorough tier only (c15_queue_drop_runs_leftovers, ~4.5 min)"],
)
PROPS["C16"] = dict(
    harness_timeout=dict(quick=1500, thorough=5400),
    title="nested guards and reactivation keep the thread pinned exactly as documented", level="proof",
    modules=["utils_state_h.rs", "utils_dispose_h.rs", "internal_cut_h.rs"] + _L3M, contract_groups=["state", "modular", "epoch", "expired"],
    kani=dict(quick=_h(_INT, ["c16_pin", "c16_unpin", "c16_repin", "c16_reactivate_after", "c15_handles", "c15_finalize", "c16_guard_drop", "c14_repin_without_collect", "c15_flush", "c15_defer", "c13_collect", "c15_local_handle", "c18_register"])
              + _h("utils_dispose_h.rs", ["dispose_periodic_reannouncement"])),
    kani_flags=_FAST,
    loops="unbounded nesting by the data-structure invariant InvL (guard_count > 0 <=> pinned bit) from a symbolic guard_count/handle_count; arbitrary depth and order follow by induction on operations",
    functions_under_contract=["Local::{pin,unpin,repin,repin_without_collect,acquire_handle,release_handle,finalize}", "Guard::{reactivate,reactivate_after,drop}"],
    expected_obligations=["C16.pin.counts_one_more_guard", "C16.pin.nested_keeps_announced_epoch", "C16.pin.other_participant_untouched", "C16.unpin.counts_one_guard_less", "C13.unpin.clears_pinned_bit_only_for_outermost_guard",
                          "C16.reactivate.unpins_only_when_sole_guard", "C16.reactivate.pinned_again_afterwards", "C16.reactivate.nested_keeps_announced_epoch", "C16.reactivate_after.f_runs_unpinned_only_when_sole_guard",
                          "C16.reactivate_after.pinned_again_afterwards", "C16.guard_drop.unpins_its_participant_exactly_once", "C16.flush.keeps_the_announced_epoch_under_a_live_guard",
                          "C13.defer.keeps_the_announced_epoch_inside_a_critical_section", "C16.unpin.collection_keeps_the_epoch_of_a_guard_kept_by_a_destructor", "C16.collect.keeps_the_announced_epoch_while_another_guard_is_alive",
                          "C16.dispose.periodic_re_announcement_keeps_the_epoch_of_a_foreign_guard"],
    trusted_base=[A_TOOLS, "the panic path of reactivate_after ('also when the closure panics') is NOT covered: Kani aborts on panic and does not model unwinding; scopeguard is trusted"],
    assumptions=["destructors that run during collection may create guards: collect is abstracted by its contract - it may leave up to 2 additional live guards on this participant (this clause was added after defect F7), otherwise it does not touch the participant's counters"],
)
PROPS["C17"] = dict(
    title="internal garbage queue: sequential FIFO / predicate contract", level="other",
    modules=["queue_h.rs"], contract_groups=[],
    kani=dict(quick=_h("queue_h.rs", ["c17_queue_sequential", "c17_pop_if_under_interference"])), kani_flags=_FAST,
    loops="CAS-retry loops of push/try_pop/try_pop_if never retry sequentially; unwound 6 with unwinding assertions on",
    bounded=["queue length <= 3, then two pops of either kind and one more push; single thread", "one environment step (another consumer pops the head) at the predicate's evaluation, queue of 2"],
    functions_under_contract=["Queue::{new,push,push_internal,try_pop,pop_internal,try_pop_if,pop_if_internal}"],
    expected_obligations=["C17.push.appends_at_the_back", "C17.pop.returns_oldest_element_fifo", "C17.pop.removes_exactly_the_head", "C17.pop_if.head_failing_predicate_stays", "C17.pop_if.predicate_held_for_that_very_element",
                          "C17.pop.retires_old_sentinel_exactly_once", "C17.pop.empty_queue_gives_none", "C17.pop.no_node_retired_twice",
                          "C17.pop_if.removed_element_is_one_the_predicate_held_for", "C17.pop_if.after_interference_only_the_new_head"],
    trusted_base=[A_TOOLS, "linearizability under concurrency (Michael-Scott; Doherty et al.) is NOT decided: only the sequential contract every linearization must satisfy, on the real code, for bounded lengths"],
    assumptions=["bounded and sequential; labelled bounded, not counted as a proof of the property"],
    explanation="BOUNDED sequential contract only: abstract view = payloads reachable from head.next; push appends, try_pop removes the head FIFO, try_pop_if removes the head only if the predicate held for that very element and evaluates it on it, "
                "None only if empty or the predicate failed, a popped node is retired exactly once. The concurrent (schedule-quantified) half of the property is not within reach of per-function contracts on this code and is not claimed.",
)
PROPS["C18"] = dict(
    harness_timeout=dict(quick=1500, thorough=5400),
    title="epoch advancement never overlooks a registered participant: sequential traversal contract", level="other",
    modules=_L3M, contract_groups=_L3G,
    kani=dict(quick=_h("list_h.rs", ["c18_iter_sequential", "c18_insert_delete", "c18_delete_is_atomic"]) + _h(_INT, ["c13_try_advance", "c15_finalize", "c18_try_advance_stalled", "c18_register"]),
              thorough=_h("list_h.rs", ["c18_iter_sequential_4"])), kani_flags=_FAST,
    loops="Iter::next's unlink loop and List::insert's CAS loop: unwound with unwinding assertions on (complete for <= 3 entries)",
    bounded=["registry of <= 3 entries with symbolic delete marks; single thread"],
    functions_under_contract=["List::{new,insert,iter}", "Entry::delete", "Iter::next", "Global::try_advance (visits every participant)", "Local::finalize (marks its entry)"],
    expected_obligations=["C18.iter.visits_every_registered_unremoved_entry_once", "C18.iter.removed_entries_unlinked_and_finalized_exactly_once", "C18.iter.list_keeps_exactly_the_unremoved_entries",
                          "C18.insert.new_entry_is_reachable_from_head", "C18.insert.keeps_every_existing_entry_reachable", "C18.delete.sets_only_the_mark_of_this_entry", "C18.finalize.marks_registry_entry_deleted", "C18.advance.stalled_traversal_does_not_advance", "C18.register.participant_is_reachable_from_registry_head", "C18.delete.marks_atomically_no_lost_unlink",
                          "C13.advance.refuses_while_a_pinned_participant_lags"],
    trusted_base=[A_TOOLS, "concurrent insert/delete during a traversal (the schedule-quantified half, incl. the Stalled path) is NOT decided"],
    assumptions=["bounded and sequential; labelled bounded, not counted as a proof of the property"],
    explanation="BOUNDED sequential contract only: a traversal that ends without Stalled returned every unmarked entry exactly once in order; marked entries are unlinked and finalized exactly once; insert makes the new entry reachable and keeps all others; "
                "delete sets only the mark; try_advance consults every registered participant. Concurrent registration/removal during traversal is not claimed.",
)
PROPS["C20"] = dict(
    harness_timeout=dict(quick=1500, thorough=5400),
    title="usable during thread start-up and tear-down: the guard-only participant", level="other",
    level_text="contracts of the functions the tear-down path consists of, proved over a state space that includes the participant `cs()` creates once the thread's handle is gone (no handle, kept alive by its guard alone); the thread-local machinery that selects this path is NOT modelled",
    modules=_L3M, contract_groups=_L3G,
    kani=dict(quick=_h(_INT, ["c20_fallback_participant_lifecycle", "c16_repin", "c16_reactivate_after", "c16_unpin", "c15_handles", "c15_finalize", "c15_local_handle", "c18_register", "c15_defer", "c15_flush", "c16_guard_drop"])),
    kani_flags=_FAST,
    loops="no loop of its own; the units' loops as in C15/C16",
    bounded=["bags of <= 2 functions (c15_finalize, c15_defer, c15_flush)"],
    functions_under_contract=["Collector::register", "LocalHandle::{pin,drop}", "Local::{acquire_handle,release_handle,repin,unpin,finalize,defer,flush}", "Guard::{reactivate,reactivate_after,flush,drop}"],
    expected_obligations=["C20.fallback.temporary_participant_lives_on_its_guard_alone", "C20.guard_only.every_guard_operation_keeps_the_participant_alive_and_pinned", "C20.fallback.last_guard_finalizes_the_temporary_participant_exactly_once",
                          "C20.reactivate.works_on_a_participant_kept_by_its_guard_alone", "C20.reactivate_after.works_on_a_participant_kept_by_its_guard_alone", "C15.unpin.finalizes_only_handleless_participant",
                          "C15.finalize.hands_local_bag_to_global_queue", "C18.register.participant_is_reachable_from_registry_head"],
    trusted_base=[A_TOOLS, "std's thread_local!: that HANDLE.try_with fails exactly after HANDLE's destructor ran, and the order in which thread-local destructors run, are NOT modelled (Kani has no threads and turns thread-locals into statics); default.rs::with_handle is two lines whose fallback branch `f(&collector().register())` is replayed by c20_fallback_participant_lifecycle - replayed, not verified in place: `LocalKey::try_with` cannot be stubbed (Kani rejects stubs of generic methods of foreign generic impls), so a change INSIDE with_handle itself (seeded change C14-n2: registering with a fresh collector) is not detected",
                  "the OnceLock-initialised default collector (std) is trusted; 'without deadlocking' is not decided (the engine takes no lock; not a contract)"],
    assumptions=["'every kind of API call made from a destructor' is covered at the level of the EBR engine's guard operations (pin, defer, flush, reactivate, reactivate_after, drop) on the guard-only participant; the Rc-layer calls reduce to these through cs()/defer (A-EBR of C01-C05)",
                 "'without leaking the garbage that thread produced' is the hand-over contract of Local::finalize (c15_finalize) plus A-EBR's 'every deferred closure runs'"],
    explanation="The property's thread-lifecycle quantifier cannot be decided by contracts (no TLS teardown in Kani or Verus). What is decided: the state the fallback path creates - a registered participant with handle_count == 0 and one live guard - is inside the state space of every guard-operation contract, "
                "none of them panics on it (the crate's own debug assertions are proof obligations; defect F12 was such an assertion), the participant is finalized exactly once by its last guard, and finalize hands its bag to the global queue.",
)
# Harnesses that bound the SIZE of a data structure (bags, queue, registry, N of a const generic):
# complete for the stated size (unwinding assertions on), but a bounded stand-in w.r.t. the property's
# "every size" - reported separately in the evidence and never counted as proved-without-bound.
BOUNDED_HARNESSES = {
    "c13_collect": "global queue of <= 2 sealed bags", "c13_try_advance": "registry of 2 participants", "c14_try_advance_monotone": "registry of 2 participants",
    "c14_try_advance_monotone_under_reannouncement": "registry of 2 participants (one removed)",
    "c18_try_advance_stalled": "registry of 3 participants, one environment step", "c15_queue_drop_runs_leftovers": "queue of <= 2 sealed bags of 1 function", "c15_bag": "bag capacity 3", "c15_defer": "bag capacity 2", "c15_flush": "bag capacity 2", "c15_finalize": "bag capacity 2", "c13_push_bag": "bag of <= 2 functions",
    "c17_queue_sequential": "queue length <= 3, sequential", "c17_pop_if_under_interference": "queue of 2, one environment step",
    "c18_delete_is_atomic": "one entry, <= 2 environment writes", "c18_iter_sequential": "registry of <= 3 entries, sequential", "c18_insert_delete": "registry of <= 3 entries, sequential",
    "c10_new_many_0": "N = 0", "c10_new_many_1": "N = 1", "c10_new_many_2": "N = 2", "c10_new_many_3": "N = 3", "c10_new_many_8": "N = 8",
    "c10_weak_many_0": "N = 0", "c10_weak_many_1": "N = 1", "c10_weak_many_3": "N = 3", "c10_weak_many_8": "N = 8",
}
DEV = ("RG", "L2S", "L2W", "DISP", "EP", "L3", "DEFD", "L3B", "L3C", "Q", "LST")


# Native demonstrations (integration tests, public API only) of the defects that were repaired in /repo.
# When a check reports one of these obligations again and the verifier's own counterexample cannot be
# replayed natively (stub-based unit), ./check runs the demonstration against the tree under check: if
# it fails there, the VIOLATION is backed by a failing native run of the real code (replay file:
# "native_demonstration"); if it passes (a different way of breaking the same obligation), the line keeps
# its no-failing-input-found suffix.
REGRESSION_DEMOS = {
    "C05.cascade.destructed_set_before_destruction": dict(demo="replay/f2_demo.rs", defect="F2"),
    "C09.cas.err_only_if_not_ptr_eq_epoch_bits_invisible": dict(demo="replay/f3_demo.rs", defect="F3"),
    "C09.cas_tag.err_only_if_not_ptr_eq": dict(demo="replay/f3_demo.rs", defect="F3"),
    "C10.weak_many.every_result_refers_to_receiver": dict(demo="replay/f4_f5_demo.rs", defect="F4"),
    "C10.new_many.zero_owners_object_released": dict(demo="replay/f4_f5_demo.rs", defect="F5"),
    "C10.new_many_iter.zero_owners_object_released": dict(demo="replay/f4_f5_demo.rs", defect="F5"),
    "C02.wsnap_upgrade.success_leaves_stamp_of_epoch_read_in_this_call": dict(demo="replay/f6_demo.rs", defect="F6"),
    "C16.unpin.counts_one_guard_less": dict(demo="replay/f7_demo.rs", defect="F7"),
    "C16.flush.keeps_the_announced_epoch_under_a_live_guard": dict(demo="replay/f9_demo.rs", defect="F9"),
    "C13.defer.keeps_the_announced_epoch_inside_a_critical_section": dict(demo="replay/f9_demo.rs", defect="F9"),
    "C16.collect.keeps_the_announced_epoch_while_another_guard_is_alive": dict(demo="replay/f9b_demo.rs", defect="F9b"),
    "C16.unpin.collection_keeps_the_epoch_of_a_guard_kept_by_a_destructor": dict(demo="replay/f9b_demo.rs", defect="F9b"),
    "C16.dispose.periodic_re_announcement_keeps_the_epoch_of_a_foreign_guard": dict(demo="replay/f9b_demo.rs", defect="F9b"),
    "C02.dec.stamped_epoch_is_read_inside_a_critical_section": dict(demo="replay/f10_demo.patch", defect="F10", patch=True, lib_filter="audit_d2"),
    "C02.cascade.second_edge_stamp_judged_against_the_current_clock": dict(demo="replay/f11_demo.rs", defect="F11"),
    "auto:assertion failed: handle_count >= 1": dict(demo="replay/f12_demo.rs", defect="F12"),
    "C10.new_many_iter.never_returns_fewer_owners_than_it_hands_out": dict(demo="replay/f13_demo.rs", defect="F13"),
    "C04.upgrade.failed_upgrade_leaves_no_trace_on_the_count_word": dict(demo="replay/f14_demo.rs", defect="F14", release=True),
}
