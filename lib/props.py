# Per-property configuration of /verif/check.  Harness ids are "<harness file>::<fn name>".

A_TOOLS = "A-TOOLS: Kani 0.68 / CBMC 6.11 / CaDiCaL are correct; rustc MIR of the scratch copy equals the MIR cargo builds from /repo (same sources, same Cargo.lock)"
A_SC = "A-SC: atomics are sequentially consistent single-copy words; Ordering arguments and fences are invisible to the verifier"
A_RG = "A-RG: soundness of rely/guarantee reasoning with additive ownership tokens (Jones/Owicki-Gries) and of the stutter lemma for CAS-retry loops (DESIGN 2.4-2.5); reflexivity/transitivity of the rely are checked, the meta-theorem is not"
A_EBR = "A-EBR: a closure handed to Guard::defer_unchecked runs exactly once, after every critical section active at the call has ended (C13+C15, themselves only partly decided)"
A_RANGE = "A-RANGE: strong/weak counts stay below 2^28 (no carry between count-word fields; `as u32` casts exact)"
A_ADDR = "A-ADDR: object addresses are aligned for their type and below 2^60 (the crate's own requirement for the 4 timestamp bits)"
A_PARAM = "A-PARAM: harness node types stand for every T: RcObject (parametricity); user pop_edges/Drop obey the trait's safety contract"

PROPS = {}

PROPS["C12"] = dict(
    title="count-word fields independent; modular epoch test errs only to 'too recent'",
    level="proof",
    modules=["utils_state_h.rs"],
    contract_groups=["state", "modular"],
    kani=dict(quick=["utils_state_h.rs::" + h for h in [
        "c12_state_from_raw", "c12_state_epoch", "c12_state_strong", "c12_state_weak", "c12_state_destructed", "c12_state_with_epoch",
        "c12_state_add_strong", "c12_state_sub_strong", "c12_state_add_weak", "c12_state_with_destructed",
        "c12_state_with_weaked", "c12_state_as_raw",
        "c12_state_from_raw_x", "c12_state_epoch_x", "c12_state_strong_x", "c12_state_weak_x", "c12_state_destructed_x", "c12_state_with_epoch_x",
        "c12_state_add_strong_x", "c12_state_sub_strong_x", "c12_state_add_weak_x", "c12_state_with_destructed_x",
        "c12_state_with_weaked_x", "c12_state_as_raw_x", "c12_state_fields_partition", "c12_state_raw_arith",
        "c12_modular_trans", "c12_modular_inver", "c12_modular_le", "c12_modular_trans_x", "c12_modular_inver_x", "c12_modular_le_x", "c12_modular_max3",
        "c12_window_theorem", "c12_window_skew"]]),
    functions_under_contract=["State::{from_raw,epoch,strong,weak,destructed,weaked,with_epoch,add_strong,sub_strong,add_weak,with_destructed,with_weaked,as_raw}",
                              "Modular<4>::{new,trans,inver,le,max}"],
    expected_obligations=["C12.state.fields_partition", "C12.raw.add_count", "C12.raw.add_weak_count", "C12.raw.sub_weak_count",
                          "C12.raw.alloc_word", "C12.modular.max3.is_argument", "C12.modular.max3.newest", "C12.modular.max3.stored_stamp",
                          "C12.window.never_old_below_threshold", "C12.window.old_in_unambiguous_window",
                          "C12.window.old_only_if_age_mod_ge_3", "C12.window.skewed_stamp_not_old"],
    trusted_base=[A_TOOLS, "epochs < 2^62 (a 63-bit counter advancing by at most one per collection cannot reach it)"],
    assumptions=["epochs < 2^62", "stamps passed to Modular are 4-bit field values of epochs <= current+1 (what the code stores)"],
    loops="Modular::max folds over the 3-element array of its only call site: fully unwound (unwind 5) with unwinding assertions on => complete",
)

_T11 = ["t_u8", "t_u16", "t_u32", "t_u64", "t_u128", "t_a32", "t_a64", "t_a4096"]
_F11 = ["null", "is_null", "tag", "high_tag", "as_raw", "with_tag", "with_high_tag", "ptr_eq", "free_with_tag", "twin", "deref_real"]
PROPS["C11"] = dict(
    title="tagging never corrupts the address; internal epoch bits invisible",
    level="proof",
    modules=["pointers_h.rs"],
    contract_groups=["tagged"],
    kani=dict(quick=["pointers_h.rs::%s::%s" % (t, f) for t in _T11 for f in _F11] + ["pointers_h.rs::rawshared_forwards"]),
    functions_under_contract=["Tagged<T>::{null,is_null,tag,high_tag,as_raw,with_tag,with_high_tag,deref,deref_mut,as_ref,ptr_eq,from}", "pointers::with_tag", "pointers::low_bits (through its callers)", "RawShared::{tag,with_tag,as_raw,ptr_eq}"],
    expected_obligations=["C11.roundtrip.tag_truncated_to_alignment", "C11.with_tag.address_unchanged", "C11.timestamp.invisible_to_ptr_eq",
                          "C11.timestamp.invisible_to_is_null", "C11.null.tagged_timestamped_null_is_null", "C11.deref.ignores_tag_and_timestamp"],
    trusted_base=[A_TOOLS, A_ADDR],
    assumptions=["alignments are the enumerated set {1,2,4,8,16,32,64,4096}; words/tags/timestamps range over all of usize per alignment", A_ADDR],
)

_RG = ["rg_rely_reflexive_transitive", "rg_safety_lemmas", "rg_alloc", "rg_increment_strong_owner", "rg_increment_strong_protected",
       "rg_increment_strong_unguarded", "rg_is_not_destructed", "rg_decrement_strong_noguard", "rg_decrement_strong_guard", "rg_try_destruct",
       "rg_increment_weak_owner", "rg_increment_weak_protected", "rg_decrement_weak_noguard", "rg_decrement_weak_guard", "rg_try_dealloc", "rg_dealloc_frees"]
PROPS["RG"] = dict(   # development aid: all L1 R/G contracts at once (not a property)
    title="(dev) all count-word R/G contracts", level="proof", modules=["utils_rg_h.rs", "internal_h.rs"], contract_groups=[],
    kani=dict(quick=["utils_rg_h.rs::" + h for h in _RG]),
    stubbed_harnesses=(), trusted_base=[A_TOOLS, A_SC, A_RG, A_EBR, A_RANGE],
    kani_flags=["--no-assertion-reach-checks"],
)

_C08 = ["c08_compare_exchange", "c08_compare_exchange_weak", "c08_compare_exchange_tag", "c08_load", "c08_store", "c08_swap", "c08_take_drop_from", "c08_new"]
_L2S = ["l2_rc_ledger", "l2_rc_new_deref"]
_C10 = ["c10_new_many_0", "c10_new_many_1", "c10_new_many_2", "c10_new_many_3", "c10_new_many_8", "c10_new_many_iter", "c10_iter_next_drop_abort",
        "c10_weak_many_0", "c10_weak_many_1", "c10_weak_many_3", "c10_weak_many_8"]
_C19 = ["c19_rc", "c19_snapshot"]
PROPS["L2S"] = dict(
    title="(dev) all strong.rs L2 contracts", level="proof", modules=["utils_rg_h.rs", "internal_h.rs", "strong_h.rs"], contract_groups=[],
    kani=dict(quick=["strong_h.rs::" + h for h in _C08 + _L2S + _C10 + _C19 + ["c11_rc_snapshot_tags"]]),
    trusted_base=[A_TOOLS], kani_flags=["--no-assertion-reach-checks"],
)

_C09 = ["c09_compare_exchange", "c09_compare_exchange_weak", "c09_compare_exchange_tag", "c09_load_store_swap", "c09_drop_from_get_mut"]
_L2W = ["l2_weak_ledger", "c05_weak_upgrade", "c05_wsnap_upgrade", "c11_weak_tags"]
PROPS["L2W"] = dict(
    title="(dev) all weak.rs L2 contracts", level="proof", modules=["utils_rg_h.rs", "internal_h.rs", "weak_h.rs"], contract_groups=[],
    kani=dict(quick=["weak_h.rs::" + h for h in _C09 + _L2W]),
    trusted_base=[A_TOOLS], kani_flags=["--no-assertion-reach-checks"],
)

_DISP = ["dispose_chain_level", "dispose_leaf_any_depth", "dispose_null", "dispose_entry", "c06_chain_induction_step"]
PROPS["DISP"] = dict(
    title="(dev) dispose_general_node one-level contracts", level="proof", modules=["utils_state_h.rs", "utils_dispose_h.rs", "internal_h.rs"], contract_groups=["state", "modular"],
    kani=dict(quick=["utils_dispose_h.rs::" + h for h in _DISP]),
    trusted_base=[A_TOOLS], kani_flags=["--no-assertion-reach-checks"],
)
