import json, os, re, sys, time, shutil
import vlib
from vlib import log, Undecided, VERIF, REPO
import props as P


def parse_args(argv):
    a = {"id": None, "tier": os.environ.get("VERIF_TIER", "quick"), "jobs": int(os.environ.get("VERIF_JOBS", "0")) or None,
         "replay": None, "keep": False}
    i = 0
    while i < len(argv):
        x = argv[i]
        if x == "--tier":
            a["tier"] = argv[i + 1]; i += 2
        elif x == "--jobs":
            a["jobs"] = int(argv[i + 1]); i += 2
        elif x == "--replay":
            a["replay"] = argv[i + 1]; i += 2
        elif x == "--keep":
            a["keep"] = True; i += 1
        else:
            a["id"] = x; i += 1
    if a["tier"] not in ("quick", "thorough"):
        a["tier"] = "quick"
    return a


def known_findings(pid):
    path = os.path.join(VERIF, "known_findings.txt")
    out = []
    if os.path.exists(path):
        for line in open(path):
            line = line.strip()
            m = re.match(r"^finding:\s+property=(\S+)\s+obligation=(\S+)\s+harness=(\S+)\s*::\s*(.*)$", line)
            if m and m.group(1) == pid:
                out.append({"obligation": m.group(2), "harness": m.group(3), "what": m.group(4)})
    return out


def harness_path(h):
    """'utils_state_h.rs::c12_x' -> 'utils::verif_state::c12_x' (fully qualified, for --exact)."""
    f, name = h.split("::", 1)
    rel, mod = vlib.HARNESS_MODULES[f]
    modpath = rel[len("src/"):-len(".rs")].replace("/", "::")
    if modpath == "lib":
        return "%s::%s" % (mod, name)
    return "%s::%s::%s" % (modpath, mod, name)


def native_replay(crate, hfile, test_text, timeout=900):
    """Append Kani's concrete-playback unit test to the scratch copy of the harness module and run it
    natively (rustc-compiled real code, Kani's playback runtime feeding the counterexample values)."""
    p = os.path.join(crate, "verif_kani", hfile)
    k = open(p).read().count("concrete playback test appended")
    test_text = re.sub(r"fn (kani_concrete_playback_\w+)\(", lambda m: "fn %s_r%d(" % (m.group(1), k), test_text)
    with open(p, "a") as f:
        f.write("\n// ---- concrete playback test appended by /verif/check ----\n" + test_text + "\n")
    names = re.findall(r"fn (kani_concrete_playback_\w+)", test_text)
    env = {"CARGO_TARGET_DIR": os.path.join(os.path.dirname(crate), "target_playback")}
    rc, out, wall = vlib.sh(["cargo", "kani", "playback", "-Z", "concrete-playback", "--lib", "--", names[0] if names else "kani_concrete_playback"],
                            cwd=crate, timeout=timeout, env=env)
    panics = re.findall(r"panicked at ([^\n]*):\n([^\n]*)", out)
    return {"rc": rc, "tests": names, "panics": [{"at": a, "msg": b} for a, b in panics][:6],
            "tail": "\n".join(out.strip().split("\n")[-25:])}


def native_demonstration(crate, dm, timeout=900):
    """Run the integration test kept for a repaired defect against the scratch copy of the tree under check
    (the inserted verification modules are cfg(kani) only, i.e. absent from this native build)."""
    src = os.path.join(VERIF, dm["demo"])
    name = "verif_demo_%s" % re.sub(r"[^a-z0-9]", "_", dm["defect"].lower())
    res = {"defect": dm["defect"], "demo": dm["demo"]}
    # a pristine copy of the tree under check (the instrumented copy carries kani-only contract attributes)
    plain = os.path.join(os.path.dirname(crate), "crate_native")
    dst = os.path.join(plain, "tests", name + ".rs")
    try:
        if os.path.isdir(plain):
            shutil.rmtree(plain)
        os.makedirs(plain)
        for f in ("Cargo.toml", "Cargo.lock", "README.md"):
            if os.path.exists(os.path.join(REPO, f)):
                shutil.copy2(os.path.join(REPO, f), os.path.join(plain, f))
        shutil.copytree(os.path.join(REPO, "src"), os.path.join(plain, "src"))
        crate = plain
        if dm.get("patch"):
            # hook-based demonstration: a patch that adds test-only hook calls and #[cfg(test)] unit tests
            prc, pout, _ = vlib.sh(["patch", "-p1", "--no-backup-if-mismatch", "-i", src], cwd=plain, timeout=60)
            if prc != 0:
                res["skipped"] = "the demonstration patch does not apply to this tree: " + pout.strip().split("\n")[-1][:200]
                return res
            cmd = ["cargo", "test", "--offline", "--lib", dm["lib_filter"], "--", "--test-threads=1"]
        else:
            os.makedirs(os.path.dirname(dst), exist_ok=True)
            with open(src) as f, open(dst, "w") as g:
                g.write(f.read())
            cmd = ["cargo", "test", "--offline", "--test", name] + (["--release"] if dm.get("release") else [])
        rc, out, wall = vlib.sh(cmd, cwd=crate, timeout=timeout, env={"CARGO_TARGET_DIR": os.path.join(os.path.dirname(crate), "target_demo")})
        failed = rc not in (0, 124) and ("panicked at" in out or "FAILED" in out) and "could not compile" not in out
        res.update({"cmd": " ".join(cmd), "rc": rc, "wall_s": round(wall, 1), "failed_on_this_tree": failed,
                    "output_tail": "\n".join(out.strip().split("\n")[-25:])})
    except Exception as e:   # never let the demonstration step turn a report into a crash
        res["error"] = repr(e)
    finally:
        try:
            os.remove(dst)
        except OSError:
            pass
    return res


def report_violation(pid, tier, crate, failed, out_text, prop, flags_of=None):
    """Write replay files, try native replay, print VIOLATION lines. Returns count of violations."""
    rdir = os.path.join(vlib.OUT, "replays", pid)
    os.makedirs(rdir, exist_ok=True)
    by_h = {}
    for f in failed:
        by_h.setdefault(f["harness"], []).append(f)
    # a proof_for_contract harness and its natively replayable twin (<name>_x) are one unit:
    # report once, replaying the twin.
    for hid in list(by_h):
        if hid.endswith("_x") and hid[:-2] in by_h:
            by_h[hid] = by_h[hid] + by_h.pop(hid[:-2])
    n = 0
    # full counterexample + native replay for at most MAX_REPLAYS units (each costs a Kani re-run and
    # a native build); prefer replayable twins / stub-free harnesses; the rest are listed in the file.
    MAX_REPLAYS = int(os.environ.get("VERIF_MAX_REPLAYS", "2"))
    order = sorted(by_h, key=lambda h: (0 if (h.endswith("_x") or h.endswith("::twin")) else 1,
                                        0 if any(f["kind"] == "named" for f in by_h[h]) else 1, h))
    rest = order[MAX_REPLAYS:]
    others = [{"harness": h, "obligations": sorted(set(f["name"] for f in by_h[h]))} for h in rest]
    for hid in order[:MAX_REPLAYS]:
        fs = by_h[hid]
        first = next((f for f in fs if f["kind"] == "named"), fs[0])
        oname = re.sub(r"[^A-Za-z0-9_.\-]", "_", first["name"])[:100]
        path = os.path.join(rdir, "%s__%s.json" % (oname, re.sub(r"[^A-Za-z0-9_]", "_", hid.split("::verif_", 1)[-1])[:60]))
        rep = {"property": pid, "tier": tier, "harness": hid,
               "failed_obligations": [{"name": f["name"], "where": f["where"], "kind": f["kind"]} for f in fs],
               "how_to_rerun": "cd /verif && ./check %s --tier %s   (single harness: cargo kani --exact --harness %s in .work/%s/crate)" % (pid, tier, hid, pid),
               "verifier": "kani 0.68.0 / cbmc 6.11.0"}
        suffix = ""
        # counterexample from the verifier
        env = {"CARGO_TARGET_DIR": os.path.join(os.path.dirname(crate), "target")}
        cmd = ["cargo", "kani", "-Z", "function-contracts", "-Z", "stubbing", "-Z", "concrete-playback",
               "--concrete-playback=print", "--exact", "--harness", hid] + list((flags_of or {}).get(hid, prop.get("kani_flags", [])))
        env["VERIF_BUDGET"] = "3" if tier == "thorough" else "2"
        rc, out, wall = vlib.sh(cmd, cwd=crate, timeout=prop.get("playback_timeout", 240), env=env)
        if rc == 124:
            rep["counterexample_note"] = "counterexample extraction (second Kani run with --concrete-playback) exceeded its time limit; the failed obligation above is from the main run"
        tests = re.findall(r"```\s*\n(.*?)```", out, re.S)
        fc = re.findall(r"Failed Checks: ([^\n]*)\n\s*File: ([^\n]*)", out)
        rep["verifier_output"] = {"failed_checks": [{"check": a, "at": b} for a, b in fc][:20],
                                  "tail": "\n".join(out.strip().split("\n")[-30:])}
        native_ok = False
        if tests:
            rep["counterexample_tests"] = tests[:4]
            uses_stubs = any("stubs which are not applied" in t for t in tests) or hid in prop.get("stubbed_harnesses", ())
            hfile = next((f for f in prop["modules"] if hid.startswith(harness_path(f + "::x").rsplit("::", 1)[0] + "::")), None)
            if uses_stubs or not hfile:
                rep["native_replay"] = {"skipped": "the harness abstracts its environment with Kani stubs (atomic-step interference, EBR entry points); "
                                        "Kani's native playback does not apply stubs, so the counterexample values above are the verifier's "
                                        "model of the schedule, not a native run"}
            else:
                # pick the test generated for the first failed named obligation if possible
                asserts = [t for t in tests if "Check for `cover`" not in t] or tests
                pick = next((t for t in asserts if first["name"] in t), asserts[0])
                # the appended test lives at the end of the harness module file: name the harness by full path
                pick = re.sub(r"concrete_playback_run\(concrete_vals, \w+\)", "concrete_playback_run(concrete_vals, crate::%s)" % hid, pick)
                nr = native_replay(crate, hfile, pick)
                rep["native_replay"] = nr
                # the natively compiled real code, fed the counterexample, must fail an assertion/panic
                native_ok = nr["rc"] != 0 and bool(nr["panics"])
                nm = next((vlib.NAMED.match(p["msg"]) for p in nr["panics"] if vlib.NAMED.match(p["msg"])), None)
                if native_ok and nm:
                    rep["natively_failed_obligation"] = nm.group(1)
                    if first["kind"] != "named":
                        first = dict(first, name=nm.group(1))
        if not native_ok:
            # a native demonstration of the repaired defect this obligation guards, run on the tree under check
            dm = next((P.REGRESSION_DEMOS[f["name"]] for f in fs if f["name"] in getattr(P, "REGRESSION_DEMOS", {})), None)
            if dm:
                nd = native_demonstration(crate, dm)
                rep["native_demonstration"] = nd
                native_ok = bool(nd.get("failed_on_this_tree"))
        if not native_ok:
            suffix = " no-failing-input-found"
        rep["replayed_natively_on_real_code"] = native_ok
        rep["other_failed_units_not_replayed"] = others
        vlib.write_json(path, rep)
        log("VIOLATION property=%s replay=%s obligation=%s harness=%s%s" % (pid, path, first["name"], hid, suffix))
        n += 1
    if others:
        log("ALSO-FAILED property=%s units=%d (listed in the replay file): %s" % (pid, len(others), ", ".join(o["harness"].split("::", 1)[-1] for o in others[:12])))
    return n + len(others)


def main(argv):
    a = parse_args(argv)
    pid = a["id"]
    if pid not in P.PROPS:
        log("unknown or unclaimed property %r; claimed: %s" % (pid, " ".join(sorted(P.PROPS))))
        return 2
    prop = P.PROPS[pid]
    tier = a["tier"]
    seed = int(os.environ.get("VERIF_SEED", "0") or 0)
    t0 = time.time()
    ev_path = os.path.join(vlib.OUT, "evidence", "%s.json" % pid)
    jobs = a["jobs"] or min(16, os.cpu_count() or 4)
    ev = {"property_id": pid, "tier": tier, "seed": seed, "level": prop["level"], "coverage": {}, "assumptions": list(prop.get("assumptions", [])),
          "wall_s": 0.0, "violations": 0}
    cov = ev["coverage"]
    status = "ok"
    undecided = []
    failed = []
    try:
        harnesses = [harness_path(h) for h in prop["kani"].get("quick", [])]
        if tier == "thorough":
            harnesses += [harness_path(h) for h in prop["kani"].get("thorough", [])]
        CANARY = harness_path("canary_h.rs::canary_false_claim_must_fail")
        harnesses.append(CANARY)
        crate, irep = vlib.prepare_crate(pid, list(prop["modules"]) + ["canary_h.rs"], prop.get("contract_groups", []))
        cov["instrumentation"] = irep
        cov["extraction_drops"] = "nothing: cargo kani compiles /repo's working-tree sources unmodified (copied to a scratch crate); inserted text = contract attribute lines + one appended `mod` item per harness module"
        ht = prop.get("harness_timeout", {}).get(tier, 600 if tier == "quick" else 3600)
        flags = list(prop.get("kani_flags", []))
        kenv = {"VERIF_BUDGET": "3" if tier == "thorough" else "2"}
        cov["interference_budget"] = int(kenv["VERIF_BUDGET"])
        # harnesses listed under fast_harnesses run in a second invocation with the fast flags
        fast = set(harness_path(h) for h in prop.get("fast_harnesses", []))
        groups = [([h for h in harnesses if h not in fast], flags)]
        if fast:
            groups.append(([h for h in harnesses if h in fast], flags + list(P._FAST)))
        data, out, wall, cmds = None, "", 0.0, []
        flags_of = {}
        for hs, fl in groups:
            if not hs:
                continue
            for h in hs:
                flags_of[h] = fl
            rc, o, w, d, cmd = vlib.run_kani(crate, hs, jobs, ht, fl, env_extra=kenv)
            out += o; wall += w; cmds.append(cmd)
            if d is None:
                data = None
                break
            if data is None:
                data = d
            else:
                for k in ("error_details", "property_details", "cbmc", "harness_metadata"):
                    data[k] = data.get(k, []) + d.get(k, [])
                data["verification_results"]["results"] += d["verification_results"]["results"]
        cmd = " ; ".join(cmds)
        res = vlib.classify(data, out, harnesses, None)
        undecided += res["undecided"]
        # the canary's false claim must have been refuted; it is not an obligation of the property
        canary_failed = [f for f in res["failed"] if f["name"].startswith("CANARY.")]
        canary_seen = [o for o in res["obligations"] if o["name"].startswith("CANARY.")]
        if data is not None and not canary_failed:
            undecided.append("vacuity canary: the verifier did NOT refute a false claim (%s)" % ("canary passed" if canary_seen else "canary did not run"))
        cov["vacuity_canary"] = "false claim refuted by the verifier" if canary_failed else "NOT refuted"
        res["failed"] = [f for f in res["failed"] if not f["name"].startswith("CANARY.")]
        res["obligations"] = [o for o in res["obligations"] if not o["name"].startswith("CANARY.")]
        res["per_harness"].pop(CANARY, None)
        failed = res["failed"]
        obl = res["obligations"]
        named = [o for o in obl if o["kind"] in ("named", "contract")]
        discharged = [o for o in obl if o["status"] == "Success"]
        # vacuity guards
        for hid, ph in res["per_harness"].items():
            if ph["named"] + ph["auto"] == 0:
                undecided.append("harness %s generated zero obligations" % hid)
        for cv in res["covers"]:
            if cv["status"] != "Satisfied":
                undecided.append("cover %s in %s not satisfied (precondition or branch unreachable: vacuity guard)" % (cv["name"], cv["harness"]))
        exp = set(prop.get("expected_obligations", []))
        got = set(o["name"] for o in named)
        missing = sorted(exp - got)
        if missing and data is not None:
            undecided.append("expected named obligations missing from this run: %s" % ", ".join(missing[:8]))
        solver_s = sum((ph.get("solver_s") or 0) for ph in res["per_harness"].values())
        bh = {h: why for h, why in P.BOUNDED_HARNESSES.items() if any(x.endswith("::" + h) for x in res["per_harness"])}
        n_bounded = len([o for o in obl if o["harness"].split("::")[-1] in bh])
        stubs = sorted(set(re.sub(r"\s+", "", m) for m in re.findall(r"- Stub: ([^\n]+)", out)))
        cov["stubs_applied"] = {"n": len(stubs), "list": stubs[:60],
                                "meaning": "each stub is an ASSUMED contract or an environment wrapper: atomics = rely/guarantee wrappers around the real operation; k_*/rec_*/c_* = callee contracts (recorded or performed abstractly); s_cs/s_global_epoch/s_defer_unchecked/k_defer_destroy = A-EBR; s_vec_new = Kani Vec::new workaround; s_unpin_unreachable = checked cut-off"}
        n_assume = 0
        for m in prop["modules"]:
            try:
                n_assume += open(os.path.join(VERIF, "kani", m)).read().count("kani::assume(")
            except OSError:
                pass
        cov["assume_statements_in_harness_modules"] = n_assume
        cov["unchecked"] = ["unsafe code is checked only by CBMC's memory model on the explored configurations (null/dangling/double free/bounds; no aliasing model)",
                            "machine arithmetic is bit-precise (CBMC), not mathematical; overflow checks are on for the code under contract",
                            "dependencies (atomic, crossbeam-utils CachePadded/Backoff, scopeguard, memoffset, std) are compiled and executed symbolically, not separately specified, except where stubbed above"]
        cov["bounded_stand_in"] = {"harnesses": bh, "obligations": n_bounded,
                                   "note": "complete for the stated size (unwinding assertions on); a bounded stand-in w.r.t. 'every size', not counted as proved without bound"}
        cov["partial_correctness_rejections"] = {"n": len(res.get("rejections", [])),
                                                 "list": [{"harness": r["harness"].split("::")[-1], "crate_assertion": r["name"], "at": r["where"]} for r in res.get("rejections", [])][:10],
                                                 "meaning": "in units whose name ends in _partial the function under contract may REFUSE its input by panicking (an assertion of the crate's own code); CBMC cuts the path there, the postconditions are proved on every returning path"}
        cov["obligations_proved_without_size_bound"] = len(discharged) - len([o for o in discharged if o["harness"].split("::")[-1] in bh])
        cov.update({
            "obligations": len(obl),
            "discharged": len(discharged),
            "named_obligations": len(named),
            "named_discharged": len([o for o in named if o["status"] == "Success"]),
            "automatic_safety_checks": len(obl) - len(named),
            "covers_satisfied": len([c for c in res["covers"] if c["status"] == "Satisfied"]),
            "covers_total": len(res["covers"]),
            "harnesses": {h: ph for h, ph in res["per_harness"].items()},
            "back_end": "Kani 0.68.0 -> CBMC 6.11.0 (SAT: %s)" % ", ".join(sorted(set(ph["solver"] for ph in res["per_harness"].values())) or ["cadical"]),
            "solver_time_s": round(solver_s, 3),
            "kani_wall_s": round(wall, 2),
            "checker_cmd": "cd %s && CARGO_NET_OFFLINE=true %s" % (crate, cmd),
            "trusted_base": list(prop.get("trusted_base", [])),
            "functions_under_contract": list(prop.get("functions_under_contract", [])),
            "bounded": list(prop.get("bounded", [])),
            "loops": prop.get("loops", "none in the code under contract (loop-free => complete over the symbolic domain)"),
            "explanation": prop.get("explanation", ""),
            "samples": [{"obligation": o["name"], "harness": o["harness"].split("::")[-1], "at": o["where"], "status": o["status"]}
                        for o in (named[:12] if named else obl[:12])],
            "named_obligation_list": sorted(got),
        })
    except Undecided as e:
        undecided.append(str(e))
        crate = None
    # ---- decide -------------------------------------------------------------------------------
    rc_exit = 0
    flags_of = locals().get("flags_of", {})
    kf = known_findings(pid)
    new_failed = []
    for f in failed:
        k = next((k for k in kf if k["obligation"] == f["name"] and (k["harness"] == "*" or f["harness"].endswith(k["harness"]))), None)
        if k:
            log("KNOWN-FINDING: property=%s %s [%s in %s]" % (pid, k["what"], f["name"], f["harness"].split("::")[-1]))
        else:
            new_failed.append(f)
    if new_failed:
        ev["violations"] = report_violation(pid, tier, crate, new_failed, "", prop, flags_of)
        rc_exit = 1
    elif undecided:
        rc_exit = 2
    cov["undecided"] = undecided
    cov["known_findings_reported"] = len(failed) - len(new_failed)
    ev["wall_s"] = round(time.time() - t0, 2)
    if "obligations" not in cov:   # keep the file schema-valid even when nothing ran
        cov.update({"obligations": 0, "discharged": 0, "checker_cmd": "(not reached)", "trusted_base": [],
                    "evaluations": 1, "distinct_nontrivial": 2, "explanation": "undecided before any obligation was generated: " + "; ".join(undecided)[:400]})
        ev["level"] = "other"
    vlib.write_json(ev_path, ev)
    for u in undecided[:12]:
        log("UNDECIDED: " + u[:400])
    if len(undecided) > 12:
        log("UNDECIDED: ... and %d more reasons (see evidence file)" % (len(undecided) - 12))
    log("%s %s tier=%s obligations=%s discharged=%s named=%s violations=%d undecided=%d wall=%.1fs -> exit %d" % (
        pid, prop["title"], tier, cov.get("obligations"), cov.get("discharged"), cov.get("named_obligations"), ev["violations"], len(undecided), ev["wall_s"], rc_exit))
    return rc_exit
