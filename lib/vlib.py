# Shared machinery for /verif/check: scratch-crate instrumentation, Kani runner,
# Verus runner, evidence writer, violation reporting.  Python stdlib only.
import json, os, re, shutil, subprocess, sys, time, hashlib

VERIF = os.path.dirname(os.path.dirname(os.path.abspath(__file__)))
REPO = os.environ.get("CIRC_REPO", "/repo")
# VERIF_SCRATCH (dev only): run against another copy of the repo without disturbing .work / evidence / replays
SCRATCH = os.environ.get("VERIF_SCRATCH")
WORK = os.path.join(SCRATCH, "work") if SCRATCH else os.path.join(VERIF, ".work")
OUT = SCRATCH if SCRATCH else VERIF

EXIT_OK, EXIT_VIOLATION, EXIT_UNDECIDED = 0, 1, 2


class Undecided(Exception):
    """The check could not decide (lost anchor, build error, tool limit, timeout). Never an alarm."""


def log(*a):
    print(*a, flush=True)


def sh(cmd, cwd=None, env=None, timeout=None, capture=True):
    e = dict(os.environ)
    e["CARGO_NET_OFFLINE"] = "true"
    if env:
        e.update(env)
    t0 = time.time()
    try:
        p = subprocess.run(cmd, cwd=cwd, env=e, timeout=timeout, shell=isinstance(cmd, str),
                           stdout=subprocess.PIPE if capture else None,
                           stderr=subprocess.STDOUT if capture else None, text=True)
        return p.returncode, (p.stdout or ""), time.time() - t0
    except subprocess.TimeoutExpired as ex:
        out = ex.stdout if isinstance(ex.stdout, str) else (ex.stdout or b"").decode("utf8", "replace")
        return 124, out + "\n[timeout]", time.time() - t0


# ---------------------------------------------------------------------------------------------
# Instrumentation: a scratch copy of /repo's *current working tree* plus mechanically inserted
# verification text.  Nothing is rewritten or deleted; what is inserted is exactly:
#   (a) one `#[cfg(kani)] #[path = ".."] mod verif_h;` item appended to the end of each module
#       file a property needs (the harness module is a *child* of the module it verifies, so the
#       real private items are in scope);
#   (c) one `#![cfg_attr(kani, recursion_limit = "1024")]` line prepended to src/lib.rs;
#   (b) `#[kani::requires/ensures(..)]` attribute lines inserted directly above the `fn` line of
#       each function under an in-place contract (table: kani/contracts.py), located by an anchor
#       regex that must match exactly once — otherwise the check is Undecided (exit 2).
# ---------------------------------------------------------------------------------------------

HARNESS_MODULES = {
    # harness file under /verif/kani -> (module file in the crate it becomes a child of, child module name)
    "utils_state_h.rs": ("src/utils.rs", "verif_state"),        # C12 (State, Modular)
    "utils_rg_h.rs": ("src/utils.rs", "verif_rg"),              # C01 C03 C04 C05 (count-word R/G contracts)
    "utils_dispose_h.rs": ("src/utils.rs", "verif_dispose"),    # C02 C06 C07 C12.site (cascade)
    "strong_h.rs": ("src/strong.rs", "verif_strong"),           # C08 C10 C19 + L2 ledgers
    "weak_h.rs": ("src/weak.rs", "verif_weak"),                 # C09 + L2 ledgers
    "pointers_h.rs": ("src/ebr_impl/pointers.rs", "verif_ptr"),  # C11
    "epoch_h.rs": ("src/ebr_impl/epoch.rs", "verif_epoch"),     # C14 (Epoch arithmetic)
    "internal_h.rs": ("src/ebr_impl/internal.rs", "verif_internal"),  # C13 C14 C15 C16
    "internal_cut_h.rs": ("src/ebr_impl/internal.rs", "verif_cut"),   # EBR cut-off stub for L1/L2 harnesses
    "deferred_h.rs": ("src/ebr_impl/deferred.rs", "verif_deferred"),  # C15
    "guard_h.rs": ("src/ebr_impl/guard.rs", "verif_guard"),     # C16
    "list_h.rs": ("src/ebr_impl/sync/list.rs", "verif_list"),   # C18
    "queue_h.rs": ("src/ebr_impl/sync/queue.rs", "verif_queue"),  # C17
    "canary_h.rs": ("src/lib.rs", "verif_canary"),              # vacuity canary (every check)
}


def load_contracts():
    ns = {}
    path = os.path.join(VERIF, "kani", "contracts.py")
    with open(path) as f:
        exec(compile(f.read(), path, "exec"), ns)
    return ns["CONTRACTS"]


def tree_digest(root):
    h = hashlib.sha256()
    for dp, dn, fn in sorted(os.walk(os.path.join(root, "src"))):
        dn.sort()
        for f in sorted(fn):
            p = os.path.join(dp, f)
            h.update(p.encode())
            with open(p, "rb") as fh:
                h.update(fh.read())
    return h.hexdigest()[:16]


def prepare_crate(tag, modules, contract_groups):
    """Copy /repo's working tree to .work/<tag>/crate and instrument it. Returns (dir, report)."""
    base = os.path.join(WORK, tag)
    crate = os.path.join(base, "crate")
    os.makedirs(base, exist_ok=True)
    if os.path.isdir(os.path.join(crate, "src")):
        shutil.rmtree(os.path.join(crate, "src"))
    os.makedirs(crate, exist_ok=True)
    for f in ("Cargo.toml", "Cargo.lock", "README.md"):
        if not os.path.exists(os.path.join(REPO, f)):
            raise Undecided("%s missing in %s" % (f, REPO))
        shutil.copy2(os.path.join(REPO, f), os.path.join(crate, f))
    if not os.path.isdir(os.path.join(REPO, "src")):
        raise Undecided("src/ missing in %s" % REPO)
    shutil.copytree(os.path.join(REPO, "src"), os.path.join(crate, "src"))
    os.makedirs(os.path.join(crate, ".cargo"), exist_ok=True)
    with open(os.path.join(crate, ".cargo", "config.toml"), "w") as f:
        f.write("[net]\noffline = true\n")
    report = {"repo_src_digest": tree_digest(REPO), "appended_modules": [], "inserted_contracts": []}
    # (b) in-place contract attributes
    contracts = load_contracts()
    by_file = {}
    for c in contracts:
        if c["group"] in contract_groups:
            by_file.setdefault(c["file"], []).append(c)
    for rel, cs in by_file.items():
        p = os.path.join(crate, rel)
        with open(p) as f:
            lines = f.read().split("\n")
        for c in cs:
            rx = re.compile(c["anchor"])
            hits = [i for i, l in enumerate(lines) if rx.search(l)]
            if "within" in c:   # restrict to the first impl block whose header matches
                wrx = re.compile(c["within"])
                starts = [i for i, l in enumerate(lines) if wrx.search(l)]
                if len(starts) != 1:
                    raise Undecided("contract anchor: impl header %r matched %d times in %s" % (c["within"], len(starts), rel))
                s = starts[0]
                # end of block = first line that is exactly "}" after s
                e = next((i for i in range(s + 1, len(lines)) if lines[i] == "}"), len(lines))
                hits = [i for i in hits if s < i < e]
            if len(hits) != 1:
                raise Undecided("contract anchor %r matched %d times in %s (function renamed or signature changed)" % (c["anchor"], len(hits), rel))
            i = hits[0]
            # step above existing attributes / doc comments directly attached to the fn
            j = i
            while j > 0 and re.match(r"^\s*(#\[|///)", lines[j - 1]):
                j -= 1
            indent = re.match(r"^\s*", lines[i]).group(0)
            ins = [indent + a for a in c["attrs"]]
            lines[j:j] = ins
            report["inserted_contracts"].append({"fn": c["fn"], "file": rel, "attrs": len(ins)})
        with open(p, "w") as f:
            f.write("\n".join(lines))
    # (a) harness modules
    # (c) one crate-level attribute (first line of src/lib.rs): harnesses carry many #[kani::stub]
    #     attributes and their nested expansion exceeds rustc's default macro recursion limit.
    libp = os.path.join(crate, "src", "lib.rs")
    with open(libp) as f:
        libsrc = f.read()
    with open(libp, "w") as f:
        f.write('#![cfg_attr(kani, recursion_limit = "1024")]\n' + libsrc)
    report["crate_attribute"] = '#![cfg_attr(kani, recursion_limit = "1024")] prepended to src/lib.rs'
    hdir = os.path.join(crate, "verif_kani")
    if os.path.isdir(hdir):
        shutil.rmtree(hdir)
    shutil.copytree(os.path.join(VERIF, "kani"), hdir)
    for m in modules:
        rel, modname = HARNESS_MODULES[m]
        p = os.path.join(crate, rel)
        if not os.path.exists(p):
            raise Undecided("module file %s missing" % rel)
        with open(p, "a") as f:
            f.write('\n#[cfg(kani)]\n#[path = "%s"]\npub(crate) mod %s;\n' % (os.path.join(hdir, m), modname))
        report["appended_modules"].append({"harness": "kani/" + m, "child_of": rel, "as": modname})
    return crate, report


# ---------------------------------------------------------------------------------------------
# Kani runner
# ---------------------------------------------------------------------------------------------

NAMED = re.compile(r'^"?((?:C\d\d|CANARY)\.[A-Za-z0-9_.:<>\-]+)')


def _norm(x):
    return re.sub(r"\s+", "", x.strip().strip('"'))


def contract_names():
    """normalised text of every in-place requires/ensures expression -> obligation name."""
    m = {}
    for c in load_contracts():
        ne = nr = 0
        fn = c["fn"]
        for a in c["attrs"]:
            k = re.match(r"^#\[kani::(requires|ensures)\((.*)\)\]$", a.strip(), re.S)
            if not k:
                continue
            if k.group(1) == "requires":
                nr += 1
                m[(fn, _norm(k.group(2)))] = "%s.contract.%s.requires%d" % (c.get("prop", "C00"), fn, nr)
            else:
                ne += 1
                m[(fn, _norm(k.group(2)))] = "%s.contract.%s.ensures%d" % (c.get("prop", "C00"), fn, ne)
    return m


def run_kani(crate, harnesses, jobs, harness_timeout, extra_flags=(), total_timeout=None, env_extra=None):
    out_json = os.path.join(os.path.dirname(crate), "kani_out.json")
    if os.path.exists(out_json):
        os.remove(out_json)
    cmd = ["cargo", "kani", "-Z", "function-contracts", "-Z", "stubbing", "-Z", "unstable-options",
           "--output-format", "terse", "-j", str(jobs), "--export-json", out_json,
           "--harness-timeout", "%ds" % harness_timeout, "--exact"]
    cmd += list(extra_flags)
    for h in harnesses:
        cmd += ["--harness", h]
    tt = total_timeout or (harness_timeout * (1 + len(harnesses) // max(1, jobs)) + 300)
    env = {"CARGO_TARGET_DIR": os.path.join(os.path.dirname(crate), "target")}
    env.update(env_extra or {})
    rc, out, wall = sh(cmd, cwd=crate, timeout=tt, env=env)
    data = None
    if os.path.exists(out_json):
        try:
            with open(out_json) as f:
                data = json.load(f)
        except Exception:
            data = None
    return rc, out, wall, data, " ".join(cmd)


def classify(data, out, expected_harnesses, harness_prefixes):
    """Turn Kani's JSON into obligation records.
    Returns dict(obligations=[...], failed=[...], undecided=[reasons], covers=[...], per_harness={...})."""
    res = {"obligations": [], "failed": [], "undecided": [], "covers": [], "per_harness": {}, "rejections": []}
    if data is None:
        m = re.findall(r"^error(?:\[E\d+\])?: .*$", out, re.M)
        res["undecided"].append("kani produced no result file (build error / crash): " + "; ".join(m[:5]))
        return res
    results = {r["harness_id"]: r for r in data.get("verification_results", {}).get("results", [])}
    stats = {c["harness_id"]: c for c in data.get("cbmc", [])}
    errs = {e["harness_id"]: e for e in data.get("error_details", [])}
    seen = set()
    cnames = contract_names()
    for hid, r in results.items():
        seen.add(hid)
        st = (stats.get(hid) or {}).get("cbmc_stats") or {}
        solver = ((stats.get(hid) or {}).get("configuration") or {}).get("solver", "cadical")
        ph = {"status": r["status"], "wall_s": r.get("duration_ms", 0) / 1000.0,
              "solver": solver, "solver_s": st.get("runtime_solver_s"), "symex_s": st.get("runtime_symex_s"),
              "vccs": st.get("vccs_generated"), "named": 0, "auto": 0, "covers_sat": 0, "covers_unsat": 0}
        res["per_harness"][hid] = ph
        partial = hid.split("::")[-1].endswith("_partial")
        checks = r.get("checks", [])
        if r["status"] != "Success" and not any(c["status"] == "Failure" for c in checks):
            e = errs.get(hid, {})
            res["undecided"].append("harness %s: status=%s exit=%s type=%s" % (hid, r["status"], e.get("exit_status"), e.get("error_type")))
        for c in checks:
            desc = c.get("description", "")
            fnn = re.sub(r"::<[^>]*>", "", c.get("function", ""))
            ck = next((k for k in cnames if k[1] == _norm(desc) and (k[0] in fnn)), None)
            is_contract = ck is not None
            if is_contract:
                desc = cnames[ck]
            m = NAMED.match(desc)
            cat = c.get("category", "")
            loc = c.get("location", {})
            where = "%s:%s" % (loc.get("file"), loc.get("line"))
            status = c["status"]
            if cat == "cover":
                res["covers"].append({"harness": hid, "name": desc, "status": status})
                if status == "Satisfied":
                    ph["covers_sat"] += 1
                else:
                    ph["covers_unsat"] += 1
                continue
            if status == "Unreachable" and (not m or is_contract):
                continue   # Kani compiles each contract into several closures (check/replace/assert); unused ones are unreachable
            rec = {"harness": hid, "name": m.group(1) if m else "auto:%s" % re.sub(r"\s+", " ", desc.strip('"'))[:120],
                   "kind": ("contract" if is_contract else "named") if m else "auto", "category": cat, "where": where, "status": status}
            if m:
                ph["named"] += 1
            else:
                ph["auto"] += 1
            res["obligations"].append(rec)
            if status == "Failure" and partial and not m and cat == "assertion" and "verif_kani" not in (loc.get("file") or ""):
                # partial-correctness unit (harness name ends in _partial): an assertion of the CRATE's own code that
                # stops the call (the function refuses its input by panicking) is a rejection, not a violation; CBMC
                # cuts the path there, so every obligation after the call is checked exactly on the returning paths.
                rec["status"] = "Rejected"
                res["obligations"].pop()
                res["rejections"].append(rec)
                ph["rejections"] = ph.get("rejections", 0) + 1
                ph["auto"] -= 1
                continue
            if status == "Failure":
                if cat == "unwind" or "unwinding assertion" in desc:
                    res["undecided"].append("harness %s: unwinding assertion failed at %s (loop needs more iterations than the harness bound)" % (hid, where))
                elif cat in ("unsupported_construct",) or "is not currently supported by Kani" in desc:
                    res["undecided"].append("harness %s: unsupported construct at %s" % (hid, where))
                else:
                    res["failed"].append(rec)
            elif status not in ("Success", "Unreachable"):
                key = "harness %s: checks with status %s (an unwinding assertion failed or the solver gave up)" % (hid, status)
                if key not in res["undecided"]:
                    res["undecided"].append(key)
            elif status == "Unreachable" and m:
                res["undecided"].append("harness %s: named obligation %s is unreachable (vacuous)" % (hid, rec["name"]))
    for hid, ph in res["per_harness"].items():
        if ph.get("rejections") and not any(f["harness"] == hid for f in res["failed"]) and ph["status"] != "Success":
            ph["status"] = "Success on every returning path (partial correctness: %d assertion(s) of the crate refuse part of the input domain)" % ph["rejections"]
    for h in expected_harnesses:
        if not any(hid == h or hid.endswith("::" + h) for hid in seen):
            res["undecided"].append("expected harness %s did not run (missing from Kani output)" % h)
    return res


def playback(crate, harness, outdir, timeout=600):
    """Re-run one failing harness with concrete playback and execute the generated test natively
    (rustc-compiled real code).  Returns dict with the test text and the native run's outcome."""
    os.makedirs(outdir, exist_ok=True)
    env = {"CARGO_TARGET_DIR": os.path.join(os.path.dirname(crate), "target")}
    cmd = ["cargo", "kani", "-Z", "function-contracts", "-Z", "stubbing", "-Z", "concrete-playback",
           "--concrete-playback=print", "--exact", "--harness", harness]
    rc, out, wall = sh(cmd, cwd=crate, timeout=timeout, env=env)
    m = re.search(r"```\s*\n(.*?)```", out, re.S)
    info = {"harness": harness, "playback_test": None, "native": None}
    if not m:
        info["note"] = "kani printed no concrete playback test"
        return info
    test = m.group(1)
    info["playback_test"] = test
    return info, test


def write_json(path, obj):
    os.makedirs(os.path.dirname(path), exist_ok=True)
    tmp = path + ".tmp"
    with open(tmp, "w") as f:
        json.dump(obj, f, indent=1, sort_keys=False)
        f.write("\n")
    os.replace(tmp, path)
