#!/bin/bash
# Run once after a fresh restore, offline. Nothing to build ahead of time: every check compiles
# /repo's working tree with cargo kani itself. We only verify the tools are there and warm the
# dependency build once so that the first check does not pay for it alone.
set -e
cd "$(dirname "$0")"
export CARGO_NET_OFFLINE=true
command -v cargo-kani >/dev/null
command -v python3 >/dev/null
mkdir -p .work evidence replays
python3 -c "import json; json.load(open('MANIFEST.json'))"
echo "setup ok: $(cargo kani --version 2>/dev/null | head -1)"
