#!/usr/bin/env python3
"""import_seeded.py <PID> <mK> <json meta>  - copy a confirmed third-party change into /verif/seeded/<PID>-<mK>/"""
import json, os, shutil, sys, glob
pid, mk, meta = sys.argv[1], sys.argv[2], json.loads(sys.argv[3])
import os as _os
src = "%s/%s/%s" % (_os.environ.get("WTOUT", "/tmp/wtout"), pid, mk)
name = _os.environ.get("SEED_NAME", mk)
dst = "/verif/seeded/%s-%s" % (pid, name)
os.makedirs(dst, exist_ok=True)
for f in glob.glob(src + "/*"):
    shutil.copy2(f, dst)
meta = dict({"id": "%s-%s" % (pid, name), "origin": "written by an independent sub-agent that saw only the property text and a scratch worktree of /repo (nothing from /verif)", "breaks": [pid]}, **meta)
json.dump(meta, open(dst + "/meta.json", "w"), indent=1)
print("imported", dst, sorted(os.listdir(dst)))
