#!/bin/bash
# dev helper: run the quick checks of all claimed properties on /repo (or $CIRC_REPO) in 4 parallel lanes,
# each in its own scratch area (does not touch /verif/evidence). Prints one line per property.
cd /verif
ids=${@:-C01 C02 C03 C04 C05 C06 C07 C08 C09 C10 C11 C12 C13 C14 C15 C16 C17 C18 C19 C20}
lane() { n=$1; shift; for id in "$@"; do s=$(date +%s); out=$(VERIF_SCRATCH=/tmp/regress/l$n VERIF_JOBS=${LJOBS:-4} ./check $id --tier ${TIER:-quick} 2>&1); rc=$?; echo "$id rc=$rc $(( $(date +%s)-s ))s :: $(echo "$out" | grep -E '^VIOLATION|^UNDECIDED' | head -2 | cut -c1-220)"; done; }
mkdir -p /tmp/regress
set -- $ids; a=(); b=(); c=(); d=(); i=0
for id in "$@"; do case $((i%4)) in 0) a+=($id);; 1) b+=($id);; 2) c+=($id);; 3) d+=($id);; esac; i=$((i+1)); done
lane 1 "${a[@]}" & lane 2 "${b[@]}" & lane 3 "${c[@]}" & lane 4 "${d[@]}" & wait
