#!/bin/bash
# usage: runmut2.sh <slot> "<mutdir> <check ids...>" ...  - uses a private copy of /repo (HEAD) in /tmp/slot<slot>/repo
slot=$1; shift
S=/tmp/slot$slot; rm -rf $S; mkdir -p $S; git -C /repo worktree add -q --detach $S/repo HEAD 2>/dev/null || { rm -rf $S/repo; git -C /repo worktree prune; git -C /repo worktree add -q --detach $S/repo HEAD; }; cp /repo/Cargo.lock $S/repo/
cd /verif
for t in "$@"; do
  set -- $t; m=$1; shift
  echo "=== $m"
  W=${WTOUT:-/tmp/wtout}; p=$W/$m/patch.diff; [ -f $W/$m/patch_rebased.diff ] && p=$W/$m/patch_rebased.diff
  if git -C $S/repo apply --check $p 2>/dev/null; then git -C $S/repo apply $p; else echo "  PATCH-DOES-NOT-APPLY $m"; continue; fi
  for id in "$@"; do
    out=$(CIRC_REPO=$S/repo VERIF_SCRATCH=$S VERIF_MAX_REPLAYS=1 VERIF_JOBS=6 ./check $id 2>&1); rc=$?
    echo "  $id rc=$rc :: $(echo "$out" | grep -E '^VIOLATION|^ALSO' | head -2 | cut -c1-300)"
    [ $rc -eq 2 ] && echo "$out" | grep UNDECIDED | head -3 | cut -c1-250
  done
  git -C $S/repo checkout -- .
done
echo "=== done slot $slot"
