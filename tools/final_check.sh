#!/bin/bash
# consistency checks before a commit that is meant to be final
cd /verif
python3-vt - <<'PY'
import json, jsonschema, glob, re, sys
ok = True
m = json.load(open('MANIFEST.json')); jsonschema.validate(m, json.load(open('/root/.vp/MANIFEST.schema.json')))
es = json.load(open('/root/.vp/EVIDENCE.schema.json'))
claimed = [c['property_id'] for c in m['checks']]
for pid in claimed:
    f = 'evidence/%s.json' % pid
    e = json.load(open(f)); jsonschema.validate(e, es)
    c = e['coverage']
    if e['violations'] or c['obligations'] != c['discharged'] or c['undecided'] or e['tier'] != 'quick':
        print('STALE/NOT CLEAN evidence:', f, e['violations'], c['obligations'], c['discharged'], c['undecided'][:1], e['tier']); ok = False
ids = [json.loads(l)['id'] for l in open('properties.jsonl')]
na = [x['property_id'] for x in m.get('not_applicable', [])]
assert sorted(claimed + na) == sorted(ids), (claimed, na)
for l in open('known_findings.txt'):
    l = l.strip()
    if l and not l.startswith('#'):
        assert re.match(r'^(fixed: property=C\d\d [0-9a-f]{7} .+|finding: property=C\d\d obligation=\S+ harness=\S+ :: .+)$', l), l
for f in glob.glob('seeded/*/meta.json'):
    json.load(open(f))
print('manifest ok; %d claimed; %d n/a; evidence %s; %d seeded' % (len(claimed), len(na), 'clean' if ok else 'NOT CLEAN', len(glob.glob('seeded/*/meta.json'))))
sys.exit(0 if ok else 1)
PY
git -C /repo status --short | head -3
git status --short | head -5
