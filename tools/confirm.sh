#!/bin/bash
# confirm.sh <PID> <mK>: confirm an agent's mutant in its own worktree: suite passes with it, demo fails with it, demo passes without.
id=$1; mk=$2; wt=/tmp/wt/$id; out=${WTOUT:-/tmp/wtout}/$id/$mk
cd $wt || exit 9
git checkout -q -- . ; git clean -fdq -e target
export CARGO_TARGET_DIR=$wt/target
res=""
place_demo() {
  if [ -f $out/demo.rs ]; then cp $out/demo.rs tests/demo_${id}_${mk}.rs; DEMO="cargo test --offline --test demo_${id}_${mk} -- --test-threads 1";
  elif [ -f $out/demo.diff ]; then git apply $out/demo.diff || { echo "demo.diff does not apply"; return 1; }; name=$(grep -ohE "fn (demo_[a-z0-9_]+|[a-z0-9_]*demo[a-z0-9_]*)" $out/demo.diff | head -1 | awk '{print $2}'); mod=$(grep -ohE "mod (demo_[a-z0-9_]+)" $out/demo.diff | head -1 | awk '{print $2}'); DEMO="cargo test --offline --lib ${mod:-$name} -- --test-threads 1";
  elif [ -f $out/demo_unit.diff ]; then git apply $out/demo_unit.diff; DEMO="cargo test --offline --lib demo -- --test-threads 1";
  else echo "no demo"; return 1; fi
}
# 1. without mutant: demo passes
place_demo || exit 8
timeout 600 $DEMO > /tmp/confirm_${id}_${mk}_clean.log 2>&1; c=$?
git checkout -q -- . ; git clean -fdq -e target
# 2. with mutant: suite passes, demo fails
git apply $out/patch.diff || { echo "$id/$mk PATCH-FAIL"; exit 7; }
timeout 900 cargo test --offline --workspace --no-fail-fast > /tmp/confirm_${id}_${mk}_suite.log 2>&1; s=$?
place_demo
timeout 600 $DEMO > /tmp/confirm_${id}_${mk}_mut.log 2>&1; m=$?
git checkout -q -- . ; git clean -fdq -e target
echo "$id/$mk demo_clean_rc=$c suite_with_mutant_rc=$s demo_with_mutant_rc=$m  => $([ $c -eq 0 ] && [ $s -eq 0 ] && [ $m -ne 0 ] && echo CONFIRMED || echo NOT-CONFIRMED) :: $DEMO"
