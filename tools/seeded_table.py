#!/usr/bin/env python3
# prints the "which checks catch which seeded changes" table (DESIGN.md section 11) from seeded/*/meta.json
import json, glob, os
rows = []
for f in sorted(glob.glob("/verif/seeded/*/meta.json")):
    m = json.load(open(f))
    rows.append((m["id"], ",".join(m.get("breaks", [])), m.get("what", "")[:150], ", ".join(m.get("caught_by", [])) or "-", m.get("missed_note", "")))
print("| seeded change | breaks | what | caught by | note |")
print("|---|---|---|---|---|")
for r in rows:
    print("| %s | %s | %s | %s | %s |" % r)
