// Child module of crate::ebr_impl::internal (L1/L2 harnesses only): the EBR cut-off stub.
#![allow(dead_code, unused_imports)]
use super::*;

/// Every guard in the L1/L2 harnesses has a null `local`, so `Guard::drop` never reaches
/// `Local::unpin`; CBMC cannot always see that statically and would otherwise drag the whole EBR
/// engine (and, through `Deferred`'s function pointer, every deferred closure) into the formula.
/// The stub turns "never reached" into a checked obligation.
pub(crate) fn s_unpin_unreachable(_l: &Local) {
    assert!(false, "unreachable.unpin_with_null_local_guard (L1/L2 harness guards have a null local)");
}

/// A leaked participant of a private collector, pinned with `gc` live guards at `announced`
/// (raw epoch word, pinned bit set) while the clock reads `global` - for the one L1 unit that needs
/// a guard with a real participant behind it (the periodic re-announcement of long disposals).
pub(crate) fn mk_cut_local(gc: usize, collecting: bool, global: usize, announced: usize) -> &'static Local {
    let c: &'static Collector = Box::leak(Box::new(Collector::new()));
    let l: &'static Local = Box::leak(Box::new(Local {
        entry: Entry::default(),
        collector: UnsafeCell::new(ManuallyDrop::new(c.clone())),
        bag: UnsafeCell::new(Bag(Vec::with_capacity(2))),
        guard_count: Cell::new(gc),
        handle_count: Cell::new(1),
        advance_count: Cell::new(0),
        prev_epoch: Cell::new(Epoch::starting()),
        pin_count: Cell::new(0),
        manual_count: Cell::new(0),
        must_collect: Cell::new(false),
        collecting: Cell::new(collecting),
        epoch: CachePadded::new(AtomicEpoch::new(Epoch::starting())),
    }));
    unsafe {
        *(&c.global.epoch as *const _ as *const AtomicEpoch as *mut usize) = global;
        *(&l.epoch as *const _ as *const AtomicEpoch as *mut usize) = announced;
    }
    l
}
/// (`internal` is a private module of `ebr_impl`: harness modules elsewhere in the crate reach the
/// helpers above through these inherent functions of the exported `Guard`.)
impl Guard {
    pub(crate) fn verif_cut_guard(gc: usize, collecting: bool, global: usize, announced: usize) -> ManuallyDrop<Guard> {
        ManuallyDrop::new(Guard { local: mk_cut_local(gc, collecting, global, announced) })
    }
    pub(crate) fn verif_cut_announced(&self) -> usize { unsafe { *(&(*self.local).epoch as *const _ as *const AtomicEpoch as *const usize) } }
}
