// Child module of crate::ebr_impl::internal (L1/L2 harnesses only): the EBR cut-off stub.
#![allow(dead_code, unused_imports)]
use super::*;

/// Every guard in the L1/L2 harnesses has a null `local`, so `Guard::drop` never reaches
/// `Local::unpin`; CBMC cannot always see that statically and would otherwise drag the whole EBR
/// engine (and, through `Deferred`'s function pointer, every deferred closure) into the formula.
/// The stub turns "never reached" into a checked obligation.
pub(crate) fn s_unpin_unreachable(_l: &Local) {
    assert!(false, "unreachable.unpin_with_null_local_guard (L1/L2 harness guards have a null local)");
}
