// Child module of crate::ebr_impl::internal.  L3 contracts (C13 C14 C15 C16) on hand-built
// `Local`s and a real `Collector::new()`, plus the EBR cut-off stubs used by the L1/L2 harnesses.
#![allow(dead_code, unused_imports, static_mut_refs, unused_variables, unused_mut)]
use super::*;
use core::sync::atomic::AtomicUsize;

// ------------------------------------------------------------------------------------------------
// is_expired (in-place contract, group "expired")
// ------------------------------------------------------------------------------------------------
pub(crate) fn post_is_expired(b: &SealedBag, g: Epoch, r: bool) -> bool {
    // at least 3 single steps of the clock since sealing (ring distance of the 63-bit values)
    r == (crate::ebr_impl::epoch::verif_epoch::ring_dist(crate::ebr_impl::epoch::verif_epoch::val(g), crate::ebr_impl::epoch::verif_epoch::val(b.epoch)) >= 3)
}
#[kani::proof_for_contract(SealedBag::is_expired)]
fn c13_is_expired() {
    let b = SealedBag { epoch: kani::any(), _bag: Bag(Vec::new()) };
    let _ = b.is_expired(kani::any());
    core::mem::forget(b);
}
#[kani::proof]
fn c13_is_expired_x() {
    let b = SealedBag { epoch: kani::any(), _bag: Bag(Vec::new()) };
    let g: Epoch = kani::any();
    assert!(post_is_expired(&b, g, b.is_expired(g)), "C13.is_expired.post");
    core::mem::forget(b);
}

// ------------------------------------------------------------------------------------------------
// Instrumented usize atomics (Kani stubs for std::sync::atomic::Atomic::<usize>::*): environment on
// the GLOBAL epoch word, and a log of my accesses to the global and to my local epoch word.
// ------------------------------------------------------------------------------------------------
static mut GWORD: usize = 0;       // address of the global epoch word
static mut LWORD: usize = 0;       // address of MY local epoch word
static mut G_BUDGET: u32 = 0;
static mut G_MODE: u8 = 0;         // 0: no interference; 1: clock may advance freely (I am not pinned); 2: I am pinned at PIN_VAL: clock in {e, e+1}
static mut PIN_VAL: usize = 0;     // epoch data (unpinned) I am validated in, for mode 2
static mut SEQ: u32 = 0;
static mut G_LOADS: u32 = 0;
static mut G_LAST_LOAD_SEQ: u32 = 0;
static mut G_LAST_LOAD_VAL: usize = 0;
static mut G_STORES: u32 = 0;
static mut G_STORE_VAL: usize = 0;
static mut G_BEFORE_STORE: usize = 0;
static mut L_WRITES: u32 = 0;
static mut L_LAST_WRITE_SEQ: u32 = 0;
static mut L_LAST_WRITE_VAL: usize = 0;
static mut L_UNPIN_WRITES: u32 = 0;  // writes of the unpinned starting epoch to my local word
static mut L_PIN_WRITES: u32 = 0;    // writes of a pinned epoch to my local word

fn budget() -> u32 { match option_env!("VERIF_BUDGET") { Some("3") => 3, Some("1") => 1, _ => 2 } }
fn ucell(a: &AtomicUsize) -> *mut usize { a as *const AtomicUsize as *mut usize }
unsafe fn env_g(a: &AtomicUsize) {
    SEQ += 1;
    // the environment acts on the global clock whichever word I am about to touch
    if GWORD == 0 || G_BUDGET == 0 || G_MODE == 0 || !kani::any::<bool>() { return; }
    G_BUDGET -= 1;
    let g = GWORD as *mut usize;
    if G_MODE == 1 {
        let k: usize = kani::any();
        kani::assume(k >= 1 && k <= 3);
        *g = (*g).wrapping_add(2 * k);                       // k single steps of the clock
    } else if *g == PIN_VAL {
        *g = (*g).wrapping_add(2);                           // at most one step while I stay pinned
    }
}
fn log_access(a: &AtomicUsize, old: usize, new: Option<usize>) {
    unsafe {
        let addr = ucell(a) as usize;
        if addr == GWORD {
            match new {
                None => { G_LOADS += 1; G_LAST_LOAD_SEQ = SEQ; G_LAST_LOAD_VAL = old; }
                Some(v) => { G_STORES += 1; G_STORE_VAL = v; G_BEFORE_STORE = old; }
            }
        }
        if addr == LWORD {
            if let Some(v) = new {
                L_WRITES += 1; L_LAST_WRITE_SEQ = SEQ; L_LAST_WRITE_VAL = v;
                if v & 1 == 1 { L_PIN_WRITES += 1; } else { L_UNPIN_WRITES += 1; }
            }
        }
    }
}
pub(crate) fn u_load(a: &AtomicUsize, _o: Ordering) -> usize { unsafe { env_g(a); let v = *ucell(a); log_access(a, v, None); v } }
pub(crate) fn u_store(a: &AtomicUsize, v: usize, _o: Ordering) { unsafe { env_g(a); let old = *ucell(a); log_access(a, old, Some(v)); *ucell(a) = v; } }
pub(crate) fn u_cas(a: &AtomicUsize, cur: usize, new: usize, _s: Ordering, _f: Ordering) -> Result<usize, usize> {
    unsafe { env_g(a); let old = *ucell(a); if old == cur { log_access(a, old, Some(new)); *ucell(a) = new; Ok(old) } else { log_access(a, old, None); Err(old) } }
}
pub(crate) fn u_fetch_or(a: &AtomicUsize, v: usize, _o: Ordering) -> usize { unsafe { env_g(a); let old = *ucell(a); *ucell(a) = old | v; old } }

// ------------------------------------------------------------------------------------------------
// Hand-built participants
// ------------------------------------------------------------------------------------------------
/// Harness objects are leaked: their destructors (queue / list / bag teardown, and through
/// `Deferred`'s function pointer every closure type of the crate) are not part of any contract here.
pub(crate) fn leak<T>(t: T) -> &'static T { Box::leak(Box::new(t)) }
pub(crate) fn mk_local(c: &Collector, bag_cap: usize) -> Local {
    Local {
        entry: Entry::default(),
        collector: UnsafeCell::new(ManuallyDrop::new(c.clone())),
        bag: UnsafeCell::new(Bag(Vec::with_capacity(bag_cap))),
        guard_count: Cell::new(0),
        handle_count: Cell::new(1),
        advance_count: Cell::new(0),
        prev_epoch: Cell::new(Epoch::starting()),
        pin_count: Cell::new(0),
        manual_count: Cell::new(0),
        must_collect: Cell::new(false),
        collecting: Cell::new(false),
        epoch: CachePadded::new(AtomicEpoch::new(Epoch::starting())),
    }
}
fn epoch_word(e: &AtomicEpoch) -> usize { e as *const AtomicEpoch as usize }   // AtomicEpoch is a newtype around AtomicUsize
unsafe fn raw_epoch(e: &AtomicEpoch) -> usize { *(e as *const AtomicEpoch as *const usize) }
unsafe fn set_raw_epoch(e: &AtomicEpoch, v: usize) { *(e as *const AtomicEpoch as *mut usize) = v; }

/// InvL: the data-structure invariant of a participant (C16): pinned bit <=> some live guard.
unsafe fn inv_l(l: &Local) -> bool { (l.guard_count.get() > 0) == (raw_epoch(&l.epoch) & 1 == 1) && (l.guard_count.get() > 0 || raw_epoch(&l.epoch) == 0) }

/// A participant in an arbitrary InvL state, pinned (if so) at the current global epoch or one behind.
unsafe fn any_local_state(l: &Local, c: &Collector) {
    let gc: usize = kani::any();
    kani::assume(gc < usize::MAX - 4);
    l.guard_count.set(gc);
    let hc: usize = kani::any();
    // a live participant is kept by a handle or - after the thread's handle is gone (cs() in a
    // thread-local destructor registers a temporary participant and drops its handle at once) - by a guard alone
    kani::assume(hc < usize::MAX - 4 && (hc >= 1 || gc >= 1));
    l.handle_count.set(hc);
    let g: usize = kani::any();
    kani::assume(g & 1 == 0);   // every clock value, including the starting epoch and the wrap-around
    set_raw_epoch(&c.global.epoch, g);
    if gc > 0 { set_raw_epoch(&l.epoch, (if kani::any() { g } else { g.wrapping_sub(2) }) | 1); }
    l.advance_count.set(kani::any());
    l.collecting.set(false);
    l.must_collect.set(false);
}

static mut DESTROYS: u32 = 0;
/// Contract of Guard::defer_destroy (A-EBR): the object is destroyed later, exactly once.
unsafe fn k_defer_destroy<T>(_g: &Guard, _ptr: RawShared<T>) { DESTROYS += 1; }
static mut COLLECTS: u32 = 0;
static mut COLLECT_PINNED: bool = false;
static mut COLLECT_GUARD_LOCAL: usize = 0;
static mut FINALIZES: u32 = 0;
static mut ADVANCES: u32 = 0;
/// Contract of Global::collect as seen by unpin: it may run deferred functions (which never touch
/// this participant's counters) and is entered with the participant still pinned.
static mut COLLECT_RESCHEDULES: u32 = 0;
static mut COLLECT_LEAVES_GUARDS: usize = 0;   // guards that destructors run by the collection created and kept alive
fn k_collect(_g: &Global, guard: &Guard) {
    unsafe {
        COLLECTS += 1;
        COLLECT_GUARD_LOCAL = guard.local as usize;
        COLLECT_PINNED = !guard.local.is_null() && raw_epoch(&(*guard.local).epoch) & 1 == 1;
        // user destructors may enter critical sections of THIS participant; a guard they keep alive
        // (e.g. in a thread-local) is one more live guard when the collection returns
        if !guard.local.is_null() && COLLECT_LEAVES_GUARDS > 0 {
            let l = &*guard.local;
            l.guard_count.set(l.guard_count.get() + COLLECT_LEAVES_GUARDS);
        }
        // ... and they may defer / flush, i.e. schedule yet another collection (once, in these harnesses)
        if !guard.local.is_null() && COLLECT_RESCHEDULES > 0 && kani::any() {
            COLLECT_RESCHEDULES -= 1;
            (*guard.local).must_collect.set(true);
        }
    }
}
fn k_finalize(_l: &Local) { unsafe { FINALIZES += 1; } }
fn k_try_advance(g: &Global, _guard: &Guard) -> Epoch { unsafe { ADVANCES += 1; crate::ebr_impl::epoch::verif_epoch::mk(raw_epoch(&g.epoch)) } }

macro_rules! l3_harness {
    ($(#[$m:meta])* fn $name:ident() $body:block) => {
        #[kani::proof]
        #[kani::stub(std::sync::atomic::Atomic::<usize>::load, u_load)]
        #[kani::stub(std::sync::atomic::Atomic::<usize>::store, u_store)]
        #[kani::stub(std::sync::atomic::Atomic::<usize>::compare_exchange, u_cas)]
        #[kani::stub(std::sync::atomic::Atomic::<usize>::fetch_or, u_fetch_or)]
        #[kani::stub(Guard::defer_destroy, k_defer_destroy)]   // cuts the Deferred fn-pointer recursion: destroy(Local) -> Bag::drop -> call -> destroy(Local) ...
        $(#[$m])*
        fn $name() { #[allow(unused_unsafe)] unsafe { $body } }
    };
}

// ================================================================================================
// C16 / C13 / C14 — pin, unpin, repin, reactivate from an arbitrary InvL state
// ================================================================================================
l3_harness! {
/// pin: +1 guard; the outermost pin publishes pinned(e) and returns only after a load of the global
/// epoch, made AFTER the publication, returned that same e (however the clock moves meanwhile);
/// nested pins leave the announced epoch alone.  Another participant is untouched.
#[kani::stub(Global::collect, k_collect)]
#[kani::unwind(6)]
fn c16_pin() {
    let c: &'static Collector = leak(Collector::new());
    let l_store = ManuallyDrop::new(mk_local(c, 2));
    let l: &Local = &l_store;
    let other_store = ManuallyDrop::new(mk_local(c, 2));
    let other: &Local = &other_store;
    any_local_state(l, c);
    any_local_state(other, c);
    let (o_gc, o_ep) = (other.guard_count.get(), raw_epoch(&other.epoch));
    let (gc, hc, ep) = (l.guard_count.get(), l.handle_count.get(), raw_epoch(&l.epoch));
    kani::assume(inv_l(l));
    GWORD = epoch_word(&c.global.epoch); LWORD = epoch_word(&l.epoch);
    G_MODE = if gc == 0 { 1 } else { 2 }; PIN_VAL = ep & !1; G_BUDGET = budget();
    let g = l.pin();
    assert!(g.local == l as *const Local, "C16.pin.guard_belongs_to_participant");
    assert!(l.guard_count.get() == gc + 1 && l.handle_count.get() == hc, "C16.pin.counts_one_more_guard");
    assert!(inv_l(l) && raw_epoch(&l.epoch) & 1 == 1, "C16.pin.pinned_afterwards");
    if gc == 0 {
        assert!(L_PIN_WRITES >= 1 && raw_epoch(&l.epoch) == L_LAST_WRITE_VAL, "C13.pin.publishes_pinned_epoch");
        assert!(G_LAST_LOAD_SEQ > L_LAST_WRITE_SEQ && (G_LAST_LOAD_VAL >> 1) == (L_LAST_WRITE_VAL >> 1),
                "C13.pin.validated_against_global_epoch_after_publication");
        assert!(raw_epoch(&c.global.epoch) == G_LAST_LOAD_VAL, "C14.pin.announced_epoch_is_current_at_return");
    } else {
        assert!(raw_epoch(&l.epoch) == ep && L_WRITES == 0, "C16.pin.nested_keeps_announced_epoch");
    }
    assert!(other.guard_count.get() == o_gc && raw_epoch(&other.epoch) == o_ep, "C16.pin.other_participant_untouched");
    assert!(COLLECTS == 0 && G_STORES == 0, "C14.pin.never_moves_the_clock");
    kani::cover!(gc == 0 && L_PIN_WRITES >= 2, "cover.pin.retry_after_clock_moved");
    kani::cover!(gc > 3, "cover.pin.nested");
    core::mem::forget(g);
}}

l3_harness! {
/// unpin: -1 guard; the pinned bit is cleared exactly when the last guard goes; a scheduled
/// collection runs (still pinned) only from the outermost unpin; finalize only for a handle-less
/// participant; another participant is untouched.
#[kani::stub(Global::collect, k_collect)]
#[kani::stub(Local::finalize, k_finalize)]
#[kani::unwind(6)]
fn c16_unpin() {
    let c: &'static Collector = leak(Collector::new());
    let l_store = ManuallyDrop::new(mk_local(c, 2));
    let l: &Local = &l_store;
    let other_store = ManuallyDrop::new(mk_local(c, 2));
    let other: &Local = &other_store;
    any_local_state(l, c);
    any_local_state(other, c);
    let (o_gc, o_ep) = (other.guard_count.get(), raw_epoch(&other.epoch));
    kani::assume(l.guard_count.get() >= 1 && inv_l(l));
    let hc: usize = kani::any(); kani::assume(hc < 10); l.handle_count.set(hc);
    l.must_collect.set(kani::any()); l.collecting.set(kani::any());
    let (gc, must, collecting, ep) = (l.guard_count.get(), l.must_collect.get(), l.collecting.get(), raw_epoch(&l.epoch));
    GWORD = epoch_word(&c.global.epoch); LWORD = epoch_word(&l.epoch);
    G_MODE = 2; PIN_VAL = ep & !1; G_BUDGET = budget();
    COLLECT_LEAVES_GUARDS = kani::any(); kani::assume(COLLECT_LEAVES_GUARDS <= 2);
    COLLECT_RESCHEDULES = 1;
    l.unpin();
    let kept = if COLLECTS > 0 { COLLECT_LEAVES_GUARDS * COLLECTS as usize } else { 0 };
    assert!(l.guard_count.get() == gc - 1 + kept, "C16.unpin.counts_one_guard_less");
    assert!(inv_l(l), "C16.unpin.invariant");
    assert!((raw_epoch(&l.epoch) & 1 == 0) == (gc == 1 && kept == 0), "C13.unpin.clears_pinned_bit_only_for_outermost_guard");
    if gc > 1 { assert!(L_UNPIN_WRITES == 0 && COLLECTS == 0 && (raw_epoch(&l.epoch) >> 1) == (ep >> 1), "C16.unpin.inner_guard_changes_nothing_else"); }
    // a guard created by a destructor during the collection and kept alive keeps its announcement
    if kept > 0 { assert!(raw_epoch(&l.epoch) == ep, "C16.unpin.collection_keeps_the_epoch_of_a_guard_kept_by_a_destructor"); }
    let rescheduled = 1 - COLLECT_RESCHEDULES;
    assert!(COLLECTS == if gc == 1 && !collecting && must { 1 + rescheduled } else { 0 }, "C15.unpin.runs_scheduled_collection_from_outermost_unpin");
    if COLLECTS > 0 { assert!(COLLECT_PINNED && COLLECT_GUARD_LOCAL == l as *const Local as usize && !l.must_collect.get(), "C13.unpin.collects_while_still_pinned"); }
    kani::cover!(COLLECTS == 2, "cover.unpin.collection_rescheduled_by_a_destructor");
    assert!(l.collecting.get() == collecting, "C16.unpin.collecting_flag_restored");
    assert!(FINALIZES == (gc == 1 && kept == 0 && hc == 0) as u32, "C15.unpin.finalizes_only_handleless_participant");
    kani::cover!(kept > 0, "cover.unpin.destructor_kept_a_guard");
    assert!(other.guard_count.get() == o_gc && raw_epoch(&other.epoch) == o_ep, "C16.unpin.other_participant_untouched");
    assert!(G_STORES == 0, "C14.unpin.never_moves_the_clock");
    kani::cover!(gc == 1 && COLLECTS == 1, "cover.unpin.collects");
    kani::cover!(gc == 2, "cover.unpin.nested");
}}

l3_harness! {
/// repin (Guard::reactivate): the guard count is unchanged and the participant is pinned again
/// afterwards, at an epoch validated after re-publication; it is unpinned in between exactly when
/// this was the sole guard; the participant is not finalized under the caller.
#[kani::stub(Global::collect, k_collect)]
#[kani::stub(Local::finalize, k_finalize)]
#[kani::unwind(6)]
fn c16_repin() {
    let c: &'static Collector = leak(Collector::new());
    let l_store = ManuallyDrop::new(mk_local(c, 2));
    let l: &Local = &l_store;
    let other_store = ManuallyDrop::new(mk_local(c, 2));
    let other: &Local = &other_store;
    any_local_state(l, c);
    any_local_state(other, c);
    let (o_gc, o_ep) = (other.guard_count.get(), raw_epoch(&other.epoch));
    kani::assume(l.guard_count.get() >= 1 && inv_l(l));
    let (gc, hc, ep) = (l.guard_count.get(), l.handle_count.get(), raw_epoch(&l.epoch));
    GWORD = epoch_word(&c.global.epoch); LWORD = epoch_word(&l.epoch);
    G_MODE = 1; G_BUDGET = budget();
    let via_guard: bool = kani::any();
    if via_guard { let mut g = Guard { local: l }; g.reactivate(); core::mem::forget(g); } else { l.repin(); }
    assert!(l.guard_count.get() == gc && l.handle_count.get() == hc, "C16.reactivate.counts_unchanged");
    assert!(inv_l(l) && raw_epoch(&l.epoch) & 1 == 1, "C16.reactivate.pinned_again_afterwards");
    assert!((L_UNPIN_WRITES >= 1) == (gc == 1), "C16.reactivate.unpins_only_when_sole_guard");
    if gc == 1 {
        assert!(G_LAST_LOAD_SEQ > L_LAST_WRITE_SEQ && (G_LAST_LOAD_VAL >> 1) == (raw_epoch(&l.epoch) >> 1), "C14.reactivate.repinned_at_validated_current_epoch");
    } else {
        assert!(raw_epoch(&l.epoch) == ep, "C16.reactivate.nested_keeps_announced_epoch");
    }
    assert!(FINALIZES == 0, "C16.reactivate.participant_survives");
    if hc == 0 { assert!(l.handle_count.get() == 0 && raw_epoch(&l.epoch) & 1 == 1, "C20.reactivate.works_on_a_participant_kept_by_its_guard_alone"); }
    assert!(other.guard_count.get() == o_gc && raw_epoch(&other.epoch) == o_ep, "C16.reactivate.other_participant_untouched");
    kani::cover!(hc == 0 && gc == 1, "cover.reactivate.guard_only_participant");
    kani::cover!(gc == 1 && via_guard, "cover.reactivate.sole_guard");
    kani::cover!(gc == 2 && !via_guard, "cover.reactivate.nested");
}}

static mut F_RUNS: u32 = 0;
static mut F_PINNED: bool = false;
static mut F_GC: usize = 0;
l3_harness! {
/// reactivate_after(f): f runs exactly once, unpinned exactly when this was the sole guard; the
/// participant is pinned again afterwards with the same guard count; f's result is returned.
#[kani::stub(Global::collect, k_collect)]
#[kani::stub(Local::finalize, k_finalize)]
#[kani::unwind(6)]
fn c16_reactivate_after() {
    let c: &'static Collector = leak(Collector::new());
    let l_store = ManuallyDrop::new(mk_local(c, 2));
    let l: &Local = &l_store;
    any_local_state(l, c);
    kani::assume(l.guard_count.get() >= 1 && inv_l(l));
    let (gc, hc, ep) = (l.guard_count.get(), l.handle_count.get(), raw_epoch(&l.epoch));
    GWORD = epoch_word(&c.global.epoch); LWORD = epoch_word(&l.epoch);
    G_MODE = 1; G_BUDGET = budget();
    let mut g = Guard { local: l };
    let lp = l as *const Local;
    let token: u32 = kani::any();
    let r = g.reactivate_after(|| { F_RUNS += 1; F_PINNED = raw_epoch(&(*lp).epoch) & 1 == 1; F_GC = (*lp).guard_count.get(); token });
    assert!(r == token && F_RUNS == 1, "C16.reactivate_after.runs_f_exactly_once_and_returns_its_result");
    assert!(F_PINNED == (gc > 1) && F_GC == gc - 1, "C16.reactivate_after.f_runs_unpinned_only_when_sole_guard");
    assert!(l.guard_count.get() == gc && l.handle_count.get() == hc, "C16.reactivate_after.counts_unchanged");
    assert!(inv_l(l) && raw_epoch(&l.epoch) & 1 == 1, "C16.reactivate_after.pinned_again_afterwards");
    if gc == 1 { assert!(G_LAST_LOAD_SEQ > L_LAST_WRITE_SEQ && (G_LAST_LOAD_VAL >> 1) == (raw_epoch(&l.epoch) >> 1), "C14.reactivate_after.repinned_at_validated_current_epoch"); }
    else { assert!(raw_epoch(&l.epoch) == ep, "C16.reactivate_after.nested_keeps_announced_epoch"); }
    assert!(FINALIZES == 0, "C16.reactivate_after.participant_survives");
    if hc == 0 { assert!(l.handle_count.get() == 0 && raw_epoch(&l.epoch) & 1 == 1, "C20.reactivate_after.works_on_a_participant_kept_by_its_guard_alone"); }
    kani::cover!(hc == 0 && gc == 1, "cover.reactivate_after.guard_only_participant");
    kani::cover!(gc == 1, "cover.reactivate_after.sole_guard");
    kani::cover!(gc == 3, "cover.reactivate_after.nested");
    core::mem::forget(g);
}}

l3_harness! {
/// repin_without_collect (used during collection and long disposals): a pinned participant's
/// announced epoch becomes the global epoch just read, pinned bit kept; never the clock.
fn c14_repin_without_collect() {
    let c: &'static Collector = leak(Collector::new());
    let l_store = ManuallyDrop::new(mk_local(c, 2));
    let l: &Local = &l_store;
    any_local_state(l, c);
    kani::assume(l.guard_count.get() >= 1 && inv_l(l));
    let gc = l.guard_count.get();
    GWORD = epoch_word(&c.global.epoch); LWORD = epoch_word(&l.epoch);
    G_MODE = 2; PIN_VAL = raw_epoch(&l.epoch) & !1; G_BUDGET = budget();
    let r = l.repin_without_collect();
    assert!(G_LOADS == 1 && crate::ebr_impl::epoch::verif_epoch::data_of(r) == (G_LAST_LOAD_VAL | 1), "C14.repin_wc.returns_pinned_global_epoch_just_read");
    assert!(raw_epoch(&l.epoch) == (G_LAST_LOAD_VAL | 1), "C14.repin_wc.announces_global_epoch_just_read_pinned");
    assert!(l.guard_count.get() == gc && inv_l(l) && G_STORES == 0, "C14.repin_wc.keeps_pinned_never_moves_clock");
    kani::cover!(L_WRITES == 1, "cover.repin_wc.moved");
    kani::cover!(L_WRITES == 0, "cover.repin_wc.same");
}}

l3_harness! {
/// acquire_handle / release_handle: handle count +-1; finalize exactly when the last handle goes
/// while no guard is alive.
#[kani::stub(Local::finalize, k_finalize)]
fn c15_handles() {
    let c: &'static Collector = leak(Collector::new());
    let l_store = ManuallyDrop::new(mk_local(c, 2));
    let l: &Local = &l_store;
    any_local_state(l, c);
    kani::assume(inv_l(l));
    let (gc, hc) = (l.guard_count.get(), l.handle_count.get());
    l.acquire_handle();
    assert!(l.handle_count.get() == hc + 1 && FINALIZES == 0, "C15.acquire_handle.plus_one");
    l.release_handle();
    assert!(l.handle_count.get() == hc && FINALIZES == 0, "C15.release_handle.minus_one_no_finalize_while_handles_remain");
    l.handle_count.set(1);
    l.release_handle();
    assert!(l.handle_count.get() == 0 && FINALIZES == (gc == 0) as u32, "C15.release_handle.finalizes_iff_last_handle_and_unpinned");
    assert!(l.guard_count.get() == gc, "C15.handles.guards_untouched");
}}

// ================================================================================================
// C13 / C14 — try_advance on a real registry (List) with two hand-built participants
// ================================================================================================
/// Two hand-built participants linked into the collector's registry (head -> a -> b).
unsafe fn registry2(c: &Collector, a: &Local, b: &Local) {
    // objects are aligned for their type (Rust guarantee; CBMC does not track it by itself)
    kani::assume((&a.entry as *const Entry as usize) & 7 == 0 && (&b.entry as *const Entry as usize) & 7 == 0);
    crate::ebr_impl::sync::list::verif_list::link_raw(&c.global.locals, &[&a.entry, &b.entry], &[false, false]);
}

l3_harness! {
/// Sequential contract: the clock advances by exactly one step iff no registered participant is
/// pinned in another epoch than the one read; otherwise it is left alone.
#[kani::unwind(4)]
fn c13_try_advance() {
    let c: &'static Collector = leak(Collector::new());
    let a_store = ManuallyDrop::new(mk_local(c, 2));
    let b_store = ManuallyDrop::new(mk_local(c, 2));
    let (a, b): (&Local, &Local) = (&a_store, &b_store);
    registry2(c, a, b);
    let g: usize = kani::any(); kani::assume(g & 1 == 0);
    set_raw_epoch(&c.global.epoch, g);
    let (ea, eb): (usize, usize) = (kani::any(), kani::any());
    set_raw_epoch(&a.epoch, ea); set_raw_epoch(&b.epoch, eb);
    GWORD = epoch_word(&c.global.epoch);
    let guard = unprotected();
    let r = c.global.try_advance(&guard);
    core::mem::forget(guard);
    let lag = |e: usize| e & 1 == 1 && (e & !1) != g;
    if lag(ea) || lag(eb) {
        assert!(G_STORES == 0 && raw_epoch(&c.global.epoch) == g && crate::ebr_impl::epoch::verif_epoch::data_of(r) == g, "C13.advance.refuses_while_a_pinned_participant_lags");
    } else {
        assert!(G_STORES == 1 && raw_epoch(&c.global.epoch) == g.wrapping_add(2) && crate::ebr_impl::epoch::verif_epoch::data_of(r) == g.wrapping_add(2), "C14.advance.single_step");
    }
    assert!(raw_epoch(&a.epoch) == ea && raw_epoch(&b.epoch) == eb, "C13.advance.participants_untouched");
    kani::cover!(lag(eb) && !lag(ea), "cover.advance.second_lags");
    kani::cover!(ea & 1 == 1 && eb & 1 == 1 && G_STORES == 1, "cover.advance.all_pinned_current");
    kani::cover!(ea & 1 == 0 && eb & 1 == 0 && G_STORES == 1, "cover.advance.nobody_pinned");
}}

l3_harness! {
/// R/G obligation: the caller is a registered participant pinned at e; while it stays pinned the
/// clock is e or e+1 (J) and other advancers move it only within J.  Then whatever the caller
/// stores is the clock's current value or its successor - never a step back, never two steps.
#[kani::unwind(4)]
fn c14_try_advance_monotone() {
    let c: &'static Collector = leak(Collector::new());
    let me_store = ManuallyDrop::new(mk_local(c, 2));
    let b_store = ManuallyDrop::new(mk_local(c, 2));
    let (me, b): (&Local, &Local) = (&me_store, &b_store);
    registry2(c, me, b);
    let e: usize = kani::any(); kani::assume(e & 1 == 0);
    set_raw_epoch(&me.epoch, e | 1);
    let ahead: bool = kani::any();
    let g0 = if ahead { e.wrapping_add(2) } else { e };
    set_raw_epoch(&c.global.epoch, g0);
    let eb: usize = kani::any();
    kani::assume(eb & 1 == 0 || (eb & !1) == e || (eb & !1) == e.wrapping_add(2));  // others obey J as well
    set_raw_epoch(&b.epoch, eb);
    GWORD = epoch_word(&c.global.epoch);
    G_MODE = 2; PIN_VAL = e; G_BUDGET = budget();
    let guard = Guard { local: me };
    let r = c.global.try_advance(&guard);
    core::mem::forget(guard);
    let now = raw_epoch(&c.global.epoch);
    assert!(now == e || now == e.wrapping_add(2), "C14.advance.pinned_participant_sees_at_most_one_advance");
    if G_STORES >= 1 {
        assert!(G_STORES == 1 && (G_STORE_VAL == G_BEFORE_STORE || G_STORE_VAL == G_BEFORE_STORE.wrapping_add(2)), "C14.advance.monotone_single_step");
        assert!(G_STORE_VAL == e.wrapping_add(2), "C14.advance.only_to_successor_of_callers_epoch");
    }
    kani::cover!(G_STORES == 0 && !ahead && now != e, "cover.advance.lost_the_race_stores_nothing");
    kani::cover!(G_STORES == 0 && ahead, "cover.advance.lagging_caller_refused");
}}

// ================================================================================================
// C15 / C13 — bags, defer, flush, push_bag, collect, finalize: conservation of deferred functions
// ================================================================================================
use crate::ebr_impl::deferred::verif_deferred::{k_call_tagged, tagged_deferred, EXEC, EXEC_N, EXEC_ORDER};
unsafe fn bag_with(cap: usize, n: usize, first_tag: u8) -> Bag {
    let mut b = Bag(Vec::with_capacity(cap));
    let mut i = 0;
    while i < n { assert!(b.try_push(tagged_deferred(first_tag + i as u8)).is_ok()); i += 1; }
    b
}

/// Bag::try_push / is_empty / Drop: Ok => stored last; Err => bag unchanged and the same function
/// handed back; dropping a bag calls every stored function exactly once, in order.
#[kani::proof]
#[kani::unwind(6)]
fn c15_bag() {
    unsafe {
        let n: usize = kani::any();
        kani::assume(n <= 3);
        let mut b = bag_with(3, n, 0);
        assert!(b.is_empty() == (n == 0) && b.0.len() == n, "C15.bag.holds_what_was_pushed");
        match b.try_push(tagged_deferred(4)) {
            Ok(()) => { assert!(n < 3 && b.0.len() == n + 1, "C15.bag.try_push_ok_stores_one_more"); }
            Err(d) => {
                assert!(n == 3 && b.0.len() == 3, "C15.bag.try_push_err_only_when_full_bag_unchanged");
                d.call();
                assert!(EXEC[4] == 1, "C15.bag.try_push_err_returns_the_same_function");
                EXEC[4] = 0; EXEC_N = 0;
            }
        }
        assert!(EXEC[0] + EXEC[1] + EXEC[2] + EXEC[4] == 0, "C15.bag.nothing_runs_while_stored");
        let len = b.0.len();
        drop(b);
        assert!(EXEC_N == len, "C15.bag.drop_runs_every_function");
        let mut i = 0;
        while i < n { assert!(EXEC[i] == 1 && EXEC_ORDER[i] == i as u8, "C15.bag.drop_runs_each_once_in_order"); i += 1; }
        if n < 3 { assert!(EXEC[4] == 1 && EXEC_ORDER[n] == 4, "C15.bag.last_pushed_runs_last"); }
        kani::cover!(n == 3, "cover.bag.full");
        kani::cover!(n == 0, "cover.bag.empty");
    }
}

// ---- contract stubs of the queue (C17's sequential contract) live in queue_h.rs ----------------------
use crate::ebr_impl::sync::queue::verif_queue::{Q_HEAD, Q_ITEMS, Q_POP_ATTEMPTS, Q_PUSHES, Q_TAIL};
unsafe fn pushed_bag(i: usize) -> &'static SealedBag { &*(Q_ITEMS[i] as *const SealedBag) }

static mut PUSH_BAGS: u32 = 0;
static mut PUSHED_LEN: [usize; 2] = [0; 2];
/// contract of Global::push_bag as seen by defer/flush/finalize: the bag's content moves to the
/// global queue intact and the bag is replaced by an empty one
fn k_push_bag(_g: &Global, bag: &mut Bag, _guard: &Guard) {
    unsafe {
        let old = replace(bag, Bag(Vec::with_capacity(2)));
        if (PUSH_BAGS as usize) < 2 { PUSHED_LEN[PUSH_BAGS as usize] = old.0.len(); }
        PUSH_BAGS += 1;
        Q_ITEMS[Q_TAIL] = Box::into_raw(Box::new(old)) as usize; Q_TAIL += 1;
    }
}

l3_harness! {
/// Global::push_bag: exactly one push of the sealed old content, stamped with the global epoch read
/// after the bag was taken; the participant's bag is left empty; nothing runs.
#[kani::stub(Queue::push, Queue::k_push)]
#[kani::stub(Deferred::call, k_call_tagged)]
#[kani::unwind(5)]
fn c13_push_bag() {
    let c: &'static Collector = leak(Collector::new());
    let g: usize = kani::any(); kani::assume(g & 1 == 0);
    set_raw_epoch(&c.global.epoch, g);
    GWORD = epoch_word(&c.global.epoch); G_MODE = 1; G_BUDGET = budget();
    let n: usize = kani::any(); kani::assume(n <= 2);
    let mut bag = bag_with(2, n, 0);
    // the pusher is a real participant pinned one epoch behind, whose cached pin epoch is older still:
    // neither may end up as the seal
    let l_store = ManuallyDrop::new(mk_local(c, 2));
    let l: &Local = &l_store;
    l.guard_count.set(1);
    set_raw_epoch(&l.epoch, g.wrapping_sub(2) | 1);
    l.prev_epoch.set(crate::ebr_impl::epoch::verif_epoch::mk(g.wrapping_sub(6) | 1));
    let with_participant: bool = kani::any();
    let guard = ManuallyDrop::new(if with_participant { Guard { local: l } } else { unprotected() });
    c.global.push_bag(&mut bag, &guard);
    assert!(Q_PUSHES == 1, "C15.push_bag.exactly_one_push");
    let sb = pushed_bag(0);
    assert!(sb._bag.0.len() == n, "C15.push_bag.content_moves_intact");
    assert!(G_LOADS == 1 && crate::ebr_impl::epoch::verif_epoch::data_of(sb.epoch) == G_LAST_LOAD_VAL, "C13.push_bag.sealed_with_global_epoch_read_at_sealing");
    assert!(bag.is_empty(), "C15.push_bag.leaves_an_empty_bag");
    assert!(bag.0.capacity() >= 1, "C15.push_bag.new_bag_can_hold_functions");
    assert!(EXEC_N == 0 && G_STORES == 0, "C13.push_bag.runs_nothing_and_never_moves_the_clock");
    kani::cover!(n == 2, "cover.push_bag.two");
    core::mem::forget(bag);
}}

l3_harness! {
/// Global::collect: one advance attempt, then at most COLLECTS_TRIALS conditional pops; a bag's
/// functions run only if that bag was expired (>= 3 steps old) w.r.t. the global epoch, in FIFO
/// order, stopping at the first unexpired bag; each function runs at most once.
#[kani::stub(Queue::try_pop_if, Queue::k_try_pop_if)]
#[kani::stub(Global::try_advance, k_try_advance)]
#[kani::stub(Deferred::call, k_call_tagged)]
#[kani::unwind(4)]   // <= 2 bags (of 1 function each) in the queue: the third pop returns None and the trial loop breaks (unwinding assertions prove it)
fn c13_collect() {
    let c: &'static Collector = leak(Collector::new());
    let l_store = ManuallyDrop::new(mk_local(c, 2));
    let l: &Local = &l_store;
    let g: usize = kani::any(); kani::assume(g & 1 == 0);
    set_raw_epoch(&c.global.epoch, g);
    // the guard whose drop runs this collection, plus possibly one that a destructor created and kept
    let gc: usize = kani::any(); kani::assume(gc == 1 || gc == 2);
    let collecting: bool = kani::any(); l.collecting.set(collecting);
    let ep0 = (if kani::any() { g } else { g.wrapping_sub(2) }) | 1;
    l.guard_count.set(gc); set_raw_epoch(&l.epoch, ep0);
    l.manual_count.set(kani::any()); l.pin_count.set(kani::any());
    let nb: usize = kani::any(); kani::assume(nb <= 2);
    let (s0, s1): (usize, usize) = (kani::any(), kani::any());
    kani::assume(s0 & 1 == 0 && s1 & 1 == 0);
    // the queue by its sequential contract (checked on the real queue in C17)
    let ug = ManuallyDrop::new(unprotected());
    if nb >= 1 { c.global.queue.k_push(bag_with(2, 1, 0).seal(crate::ebr_impl::epoch::verif_epoch::mk(s0)), &ug); }
    if nb >= 2 { c.global.queue.k_push(bag_with(2, 1, 1).seal(crate::ebr_impl::epoch::verif_epoch::mk(s1)), &ug); }
    Q_PUSHES = 0;
    let guard = ManuallyDrop::new(Guard { local: l });
    c.global.collect(&guard);
    // signed distance of the 63-bit epoch values, in 64-bit arithmetic (no wide division for the solver)
    let dist = |s: usize| { let d = ((g >> 1).wrapping_sub(s >> 1)) & (usize::MAX >> 1); if d >= (1usize << 62) { d as i64 - (1i64 << 62) - (1i64 << 62) } else { d as i64 } };
    let (x0, x1) = (nb >= 1 && dist(s0) >= 3, nb >= 2 && dist(s1) >= 3);
    assert!(ADVANCES == 1, "C13.collect.one_advance_attempt");
    // between two bags the collector may re-announce (long collections, C14) - never under a foreign guard (C16)
    if gc > 1 { assert!(raw_epoch(&l.epoch) == ep0, "C16.collect.keeps_the_announced_epoch_while_another_guard_is_alive"); }
    assert!(raw_epoch(&l.epoch) == ep0 || raw_epoch(&l.epoch) == (g | 1), "C14.collect.re_announces_the_current_epoch_only");
    assert!(l.guard_count.get() == gc, "C16.collect.guard_count_unchanged");
    assert!(l.manual_count.get() == 0 && l.pin_count.get() == 0, "C15.collect.resets_collection_counters");
    assert!(EXEC[0] <= 1 && EXEC[1] <= 1, "C15.collect.each_function_at_most_once");
    assert!(EXEC[0] == x0 as u32, "C13.collect.first_bag_runs_iff_expired");
    assert!(EXEC[1] == (x0 && x1) as u32, "C13.collect.fifo_stops_at_first_unexpired_bag");
    if EXEC[1] == 1 { assert!(EXEC_ORDER[0] == 0 && EXEC_ORDER[1] == 1, "C15.collect.runs_in_fifo_order"); }
    assert!(Q_POP_ATTEMPTS as usize <= Global::COLLECTS_TRIALS, "C13.collect.bounded_trials");
    assert!(Q_PUSHES == 0, "C15.collect.pushes_nothing");
    kani::cover!(nb == 2 && x0 && x1, "cover.collect.both_expired");   // (one cover only: each costs a full SAT call on this formula)
}}

l3_harness! {
/// Local::defer: the function ends up as the last element of the participant's bag; a full bag is
/// handed to the global queue intact first (one push_bag) and a collection is scheduled; nothing runs.
#[kani::stub(Global::push_bag, k_push_bag)]
#[kani::stub(Global::try_advance, k_try_advance)]
#[kani::stub(Global::collect, k_collect)]
#[kani::stub(Deferred::call, k_call_tagged)]
#[kani::unwind(6)]
fn c15_defer() {
    let c: &'static Collector = leak(Collector::new());
    let l_store = ManuallyDrop::new(mk_local(c, 2));
    let l: &Local = &l_store;
    let ge: usize = kani::any(); kani::assume(ge & 1 == 0);
    set_raw_epoch(&c.global.epoch, ge);
    let announced = ge.wrapping_sub(2) | 1;                  // pinned one epoch behind the clock
    l.guard_count.set(1); set_raw_epoch(&l.epoch, announced);
    let n: usize = kani::any(); kani::assume(n <= 2);
    *l.bag.get() = bag_with(2, n, 0);
    let ac: usize = kani::any(); l.advance_count.set(ac);
    // also from inside a collection (the engine's own queue pop and registry scan defer from there,
    // holding epoch-protected references across the call; so do destructors that opened a guard)
    let collecting: bool = kani::any(); l.collecting.set(collecting);
    let guard = ManuallyDrop::new(Guard { local: l });
    l.defer(tagged_deferred(4), &guard);
    let bag = &*l.bag.get();
    if n < 2 {
        assert!(PUSH_BAGS == 0 && bag.0.len() == n + 1 && !l.must_collect.get(), "C15.defer.stored_in_local_bag");
    } else {
        assert!(PUSH_BAGS == 1 && PUSHED_LEN[0] == 2 && bag.0.len() == 1, "C15.defer.full_bag_goes_to_global_queue_intact");
        assert!(l.must_collect.get(), "C15.defer.full_bag_schedules_collection");
    }
    assert!(EXEC_N == 0, "C13.defer.runs_nothing");
    assert!(COLLECTS == 0, "C07.defer.never_collects_reentrantly");   // deferred functions never run on top of the deferring frame
    assert!(raw_epoch(&l.epoch) == announced, "C13.defer.keeps_the_announced_epoch_inside_a_critical_section");
    assert!(l.advance_count.get() == ac.wrapping_add(1) && ADVANCES == (ac.wrapping_add(1) % Local::COUNTS_BETWEEN_ADVANCE == 0) as u32, "C15.defer.periodic_advance_attempt");
    // conservation: run what is in the local bag now: the new function is the last one
    let k = bag.0.len();
    core::ptr::drop_in_place(l.bag.get());
    assert!(EXEC[4] == 1 && EXEC_ORDER[k - 1] == 4 && EXEC_N == k, "C15.defer.function_is_last_in_bag_exactly_once");
    kani::cover!(n == 2 && collecting, "cover.defer.full_bag_during_collection");
    kani::cover!(n == 2, "cover.defer.full_bag");
    kani::cover!(ADVANCES == 1, "cover.defer.advance");
}}

l3_harness! {
/// flush / push_to_global / schedule_collection / incr_manual_collection.
#[kani::stub(Global::push_bag, k_push_bag)]
#[kani::stub(Global::collect, k_collect)]
#[kani::stub(Deferred::call, k_call_tagged)]
#[kani::unwind(6)]
fn c15_flush() {
    let c: &'static Collector = leak(Collector::new());
    let l_store = ManuallyDrop::new(mk_local(c, 2));
    let l: &Local = &l_store;
    let g: usize = kani::any(); kani::assume(g & 1 == 0);   // every clock value, including the starting epoch and the wrap-around
    set_raw_epoch(&c.global.epoch, g);
    l.guard_count.set(1); set_raw_epoch(&l.epoch, g.wrapping_sub(2) | 1);
    let n: usize = kani::any(); kani::assume(n <= 2);
    *l.bag.get() = bag_with(2, n, 0);
    let collecting: bool = kani::any(); l.collecting.set(collecting);
    let guard = ManuallyDrop::new(Guard { local: l });
    let via: u8 = kani::any();
    let mc: usize = kani::any(); l.manual_count.set(mc);
    if via == 0 { l.flush(&guard); } else if via == 1 { guard.flush(); } else { guard.incr_manual_collection(); }
    let flushed = via <= 1 || mc.wrapping_add(1) % MANUAL_EVENTS_BETWEEN_COLLECT == 0;
    if flushed {
        assert!(PUSH_BAGS == (n > 0) as u32 && (n == 0 || PUSHED_LEN[0] == n) && (*l.bag.get()).is_empty(), "C15.flush.moves_local_bag_to_global_queue_iff_nonempty");
        assert!(l.must_collect.get(), "C15.flush.schedules_collection");
        // C16: the caller holds a live guard (it passes one), so its announcement stays - in a collection too
        assert!(raw_epoch(&l.epoch) == (g.wrapping_sub(2) | 1), "C16.flush.keeps_the_announced_epoch_under_a_live_guard");
    } else {
        assert!(PUSH_BAGS == 0 && !l.must_collect.get() && (*l.bag.get()).0.len() == n, "C15.manual_collection.counts_only");
    }
    if via == 2 { assert!(l.manual_count.get() == mc.wrapping_add(1), "C15.manual_collection.counter"); }
    assert!(EXEC_N == 0, "C13.flush.runs_nothing");
    assert!(COLLECTS == 0, "C07.flush.never_collects_reentrantly");
    kani::cover!(flushed && n == 2 && collecting, "cover.flush.during_collection");
    kani::cover!(via == 2 && flushed, "cover.flush.by_manual_counter");
}}

static mut PINS: u32 = 0;
/// Contract of Local::pin as seen by finalize (proved in c16_pin): one more guard, pinned.
fn k_pin(l: &Local) -> Guard {
    unsafe { PINS += 1; l.guard_count.set(l.guard_count.get() + 1); if raw_epoch(&l.epoch) & 1 == 0 { set_raw_epoch(&l.epoch, raw_epoch(&l.collector().global.epoch) | 1); } }
    Guard { local: l }
}
l3_harness! {
/// finalize (thread exit): the local bag is handed to the global queue, the registry entry is
/// marked deleted, and exactly one reference to the collector is released - in that order.
#[kani::stub(Global::push_bag, k_push_bag)]
#[kani::stub(Global::collect, k_collect)]
#[kani::stub(Local::pin, k_pin)]
#[kani::stub(Queue::try_pop, Queue::k_try_pop_empty)]   // teardown of the Global is not reached (another handle keeps it alive, asserted below)
#[kani::stub(Deferred::call, k_call_tagged)]
#[kani::unwind(6)]
fn c15_finalize() {
    let c: &'static Collector = leak(Collector::new());
    let keep = c.clone();                                   // another handle keeps the Global alive
    let l_store = ManuallyDrop::new(mk_local(c, 2));
    let l: &Local = &l_store;
    let g: usize = kani::any(); kani::assume(g & 1 == 0);
    set_raw_epoch(&c.global.epoch, g);
    l.handle_count.set(0);
    let n: usize = kani::any(); kani::assume(n <= 2);
    *l.bag.get() = bag_with(2, n, 0);
    let refs_before = std::sync::Arc::strong_count(&c.global);
    GWORD = epoch_word(&c.global.epoch); LWORD = epoch_word(&l.epoch);
    l.finalize();
    assert!(PINS == 1, "C15.finalize.pins_while_handing_over");
    assert!(PUSH_BAGS == (n > 0) as u32 && (n == 0 || PUSHED_LEN[0] == n), "C15.finalize.hands_local_bag_to_global_queue");
    assert!((*l.bag.get()).is_empty() && EXEC_N == 0, "C15.finalize.loses_and_runs_nothing");
    assert!(crate::ebr_impl::sync::list::verif_list::next_word(&l.entry) & 1 == 1, "C18.finalize.marks_registry_entry_deleted");
    assert!(std::sync::Arc::strong_count(&keep.global) == refs_before - 1, "C15.finalize.releases_exactly_one_collector_reference");
    assert!(l.guard_count.get() == 0 && l.handle_count.get() == 0 && raw_epoch(&l.epoch) == 0, "C16.finalize.leaves_participant_unpinned");
    kani::cover!(n == 2, "cover.finalize.with_garbage");
    core::mem::forget(keep);
}}

// ================================================================================================
// Guard: defer_unchecked hands the function over exactly once; Drop unpins exactly once
// ================================================================================================
static mut LOCAL_DEFERS: u32 = 0;
static mut HELD: Option<Deferred> = None;
unsafe fn k_local_defer(_l: &Local, d: Deferred, _g: &Guard) { LOCAL_DEFERS += 1; HELD = Some(d); }
static mut UNPINS: u32 = 0;
static mut UNPIN_WHO: usize = 0;
fn k_unpin(l: &Local) { unsafe { UNPINS += 1; UNPIN_WHO = l as *const Local as usize; } }

l3_harness! {
/// Guard::defer_unchecked: an unprotected guard runs the function at once, exactly once; a real
/// guard hands exactly one Deferred to its participant, and that Deferred runs the function once.
#[kani::stub(Local::defer, k_local_defer)]
fn c15_guard_defer() {
    let c: &'static Collector = leak(Collector::new());
    let l_store = ManuallyDrop::new(mk_local(c, 2));
    let l: &Local = &l_store;
    let real: bool = kani::any();
    let g = ManuallyDrop::new(if real { Guard { local: l } } else { unprotected() });
    let big: [u64; 5] = [kani::any(), 2, 3, 4, 5];
    let want = big[0] ^ 9;
    g.defer_unchecked(move || { EXEC[0] += 1; EXEC_N = (big[0] ^ 9) as usize; big[1] });
    if real {
        assert!(LOCAL_DEFERS == 1 && EXEC[0] == 0, "C15.guard_defer.hands_exactly_one_deferred_to_the_participant");
        HELD.take().unwrap().call();
    } else {
        assert!(LOCAL_DEFERS == 0, "C15.guard_defer.unprotected_defers_nothing");
    }
    assert!(EXEC[0] == 1 && EXEC_N == want as usize, "C15.guard_defer.function_runs_exactly_once_with_its_captures");
}}

l3_harness! {
/// Drop for Guard: unpins its participant exactly once; an unprotected guard does nothing.
#[kani::stub(Local::unpin, k_unpin)]
fn c16_guard_drop() {
    let c: &'static Collector = leak(Collector::new());
    let l_store = ManuallyDrop::new(mk_local(c, 2));
    let l: &Local = &l_store;
    let real: bool = kani::any();
    let g = if real { Guard { local: l } } else { unprotected() };
    drop(g);
    assert!(UNPINS == real as u32 && (!real || UNPIN_WHO == l as *const Local as usize), "C16.guard_drop.unpins_its_participant_exactly_once");
}}

// ================================================================================================
// C18 — a stalled traversal must not advance the clock (one environment step inside the scan)
// ================================================================================================
static mut STALL_SLOT: usize = 0;     // address of the predecessor's `next` word
static mut STALL_ARMED: bool = false;
/// atomic::Atomic<T>::compare_exchange with ONE environment step: right before my unlink CAS on the
/// predecessor's `next`, another thread logically deletes the predecessor (sets its mark bit).
fn cas_with_predecessor_deleted<T: Copy>(a: &atomic::Atomic<T>, cur: T, new: T, _s: Ordering, _f: Ordering) -> Result<T, T> {
    unsafe {
        let slot = a as *const atomic::Atomic<T> as *mut usize;
        if STALL_ARMED && slot as usize == STALL_SLOT { STALL_ARMED = false; *slot |= 1; }
        let old = *slot;
        let curw: usize = core::mem::transmute_copy(&cur);
        if old == curw { *slot = core::mem::transmute_copy(&new); Ok(core::mem::transmute_copy(&old)) } else { Err(core::mem::transmute_copy(&old)) }
    }
}

l3_harness! {
/// registry head -> a -> b(removed) -> c ; while the scan unlinks b, a is removed concurrently
/// (Stalled).  c is pinned in an older epoch and was not reached: the clock must stay.
#[kani::stub(atomic::Atomic::compare_exchange, cas_with_predecessor_deleted)]
#[kani::unwind(5)]
fn c18_try_advance_stalled() {
    let c: &'static Collector = leak(Collector::new());
    let a_store = ManuallyDrop::new(mk_local(c, 2));
    let b_store = ManuallyDrop::new(mk_local(c, 2));
    let c_store = ManuallyDrop::new(mk_local(c, 2));
    let (a, b, cc): (&Local, &Local, &Local) = (&a_store, &b_store, &c_store);
    kani::assume((&a.entry as *const Entry as usize) & 7 == 0 && (&b.entry as *const Entry as usize) & 7 == 0 && (&cc.entry as *const Entry as usize) & 7 == 0);
    crate::ebr_impl::sync::list::verif_list::link_raw(&c.global.locals, &[&a.entry, &b.entry, &cc.entry], &[false, true, false]);
    let g: usize = kani::any(); kani::assume(g & 1 == 0);   // every clock value, including the starting epoch and the wrap-around
    set_raw_epoch(&c.global.epoch, g);
    set_raw_epoch(&a.epoch, 0);                               // a: not pinned
    set_raw_epoch(&cc.epoch, g.wrapping_sub(2) | 1);          // c: pinned one epoch behind - it blocks the advance
    GWORD = epoch_word(&c.global.epoch);
    STALL_SLOT = &a.entry as *const Entry as usize;           // Entry is one word: its `next`
    STALL_ARMED = true;
    let guard = ManuallyDrop::new(unprotected());
    let r = c.global.try_advance(&guard);
    assert!(!STALL_ARMED, "C18.stall.environment_step_happened");
    assert!(G_STORES == 0 && raw_epoch(&c.global.epoch) == g, "C18.advance.stalled_traversal_does_not_advance");
    assert!(crate::ebr_impl::epoch::verif_epoch::data_of(r) == g, "C18.advance.stalled_traversal_reports_unchanged_epoch");
}}

// ================================================================================================
// Collector / LocalHandle: registration and the handle's share (C15, C18)
// ================================================================================================
static mut RELEASES: u32 = 0;
static mut RELEASE_WHO: usize = 0;
fn k_release_handle(l: &Local) { unsafe { RELEASES += 1; RELEASE_WHO = l as *const Local as usize; } }

l3_harness! {
/// LocalHandle: pin() pins ITS participant (one call, its guard); dropping the handle releases exactly
/// one handle share of that participant.
#[kani::stub(Local::pin, k_pin)]
#[kani::stub(Local::release_handle, k_release_handle)]
fn c15_local_handle() {
    let c: &'static Collector = leak(Collector::new());
    let l_store = ManuallyDrop::new(mk_local(c, 2));
    let l: &Local = &l_store;
    let h = LocalHandle { local: l };
    let g = h.pin();
    assert!(PINS == 1 && g.local == l as *const Local && l.guard_count.get() == 1, "C16.handle_pin.pins_its_participant_once");
    core::mem::forget(g);
    assert!(RELEASES == 0, "C15.handle.alive_while_held");
    drop(h);
    assert!(RELEASES == 1 && RELEASE_WHO == l as *const Local as usize, "C15.handle_drop.releases_exactly_one_handle_share");
}}

l3_harness! {
/// Collector::register: a fresh participant - one handle, no guard, unpinned, empty bag - that holds one
/// more reference to the collector and is reachable from the registry head (so advancement sees it).
#[kani::unwind(4)]
fn c18_register() {
    let c: &'static Collector = leak(Collector::new());
    let refs = std::sync::Arc::strong_count(&c.global);
    let old_head = crate::ebr_impl::sync::list::verif_list::head_word(&c.global.locals);
    let h = c.register();
    let l: &Local = &*h.local;
    assert!(l.handle_count.get() == 1 && l.guard_count.get() == 0 && raw_epoch(&l.epoch) == 0, "C16.register.fresh_participant_one_handle_unpinned");
    assert!((*l.bag.get()).is_empty() && !l.must_collect.get() && !l.collecting.get(), "C15.register.fresh_participant_has_no_garbage");
    assert!(std::sync::Arc::strong_count(&c.global) == refs + 1 && core::ptr::eq(l.global(), &*c.global), "C15.register.participant_keeps_its_collector_alive");
    assert!(crate::ebr_impl::sync::list::verif_list::head_word(&c.global.locals) == &l.entry as *const Entry as usize, "C18.register.participant_is_reachable_from_registry_head");
    assert!(crate::ebr_impl::sync::list::verif_list::next_word(&l.entry) == old_head, "C18.register.keeps_earlier_participants_reachable");
    core::mem::forget(h);
}}

l3_harness! {
/// C20: what `cs()` does once the thread's participant handle has been destroyed (default.rs
/// `with_handle`: `f(&collector().register())` with f = pin) - spelled out with the real callees.
/// The temporary participant loses its only handle as soon as `cs()` returns and lives on its guard
/// alone; every guard operation still works on it (no panic: the crate's own debug assertions are
/// obligations here) and dropping the last guard finalizes it exactly once (its garbage is handed
/// over by finalize, c15_finalize).
#[kani::stub(Local::pin, k_pin)]
#[kani::stub(Global::collect, k_collect)]
#[kani::stub(Local::finalize, k_finalize)]
#[kani::unwind(6)]
fn c20_fallback_participant_lifecycle() {
    let c: &'static Collector = leak(Collector::new());
    let ge: usize = kani::any(); kani::assume(ge & 1 == 0);
    set_raw_epoch(&c.global.epoch, ge);
    // Collector::register by its contract (proved on the real function in c18_register): a fresh
    // participant with one handle, no guard, unpinned, empty bag (kept on the stack: a heap Local costs CBMC minutes)
    let l_store = ManuallyDrop::new(mk_local(c, 2));
    let l: &Local = &l_store;
    let h = LocalHandle { local: l };
    let mut g = h.pin();
    drop(h);                                                     // end of with_handle's fallback closure
    assert!(l.handle_count.get() == 0 && l.guard_count.get() == 1 && FINALIZES == 0 && inv_l(l), "C20.fallback.temporary_participant_lives_on_its_guard_alone");
    let op: u8 = kani::any();
    let must: bool = kani::any(); l.must_collect.set(must);
    if op == 0 { g.reactivate(); }
    else if op == 1 { let r = g.reactivate_after(|| 7u32); assert!(r == 7, "C20.guard_only.reactivate_after_returns_result"); }
    else if op == 2 { g.flush(); }
    assert!(l.handle_count.get() == 0 && l.guard_count.get() == 1 && FINALIZES == 0 && inv_l(l), "C20.guard_only.every_guard_operation_keeps_the_participant_alive_and_pinned");
    drop(g);
    assert!(FINALIZES == 1 && l.guard_count.get() == 0 && raw_epoch(&l.epoch) == 0, "C20.fallback.last_guard_finalizes_the_temporary_participant_exactly_once");
    kani::cover!(op == 0, "cover.c20.reactivate");
    kani::cover!(op == 1, "cover.c20.reactivate_after");
    kani::cover!(op == 2 && COLLECTS >= 1, "cover.c20.flush_then_collect_at_last_unpin");
}}

l3_harness! {
/// Collector teardown: dropping the global queue runs every function still stored in it, exactly once,
/// in FIFO order (nothing deferred is lost when the last handle goes).
#[kani::stub(Deferred::call, k_call_tagged)]
#[kani::stub(crossbeam_utils::Backoff::spin, k_no_spin)]
#[kani::unwind(5)]
fn c15_queue_drop_runs_leftovers() {
    let q: Queue<SealedBag> = Queue::new();
    let g = ManuallyDrop::new(unprotected());
    let n: usize = kani::any();
    kani::assume(n <= 2);
    if n >= 1 { q.push(bag_with(2, 1, 0).seal(crate::ebr_impl::epoch::verif_epoch::mk(kani::any())), &g); }
    if n >= 2 { q.push(bag_with(2, 1, 1).seal(crate::ebr_impl::epoch::verif_epoch::mk(kani::any())), &g); }
    assert!(EXEC_N == 0, "C15.queue.stores_without_running");
    drop(q);
    assert!(EXEC_N == n && (n < 1 || (EXEC[0] == 1 && EXEC_ORDER[0] == 0)) && (n < 2 || (EXEC[1] == 1 && EXEC_ORDER[1] == 1)), "C15.queue_drop.runs_every_leftover_function_exactly_once_fifo");
    kani::cover!(n == 2, "cover.queue_drop.two");
}}
fn k_no_spin(_b: &crossbeam_utils::Backoff) {}

// ================================================================================================
// C14 — try_advance while the CALLER's announcement moves during its own scan
// (try_advance runs inside unpin's collection loop; unlinking a removed participant defers its
//  destruction; if that overflows the caller's bag, schedule_collection re-announces the caller's epoch
//  because `collecting` is set).  The clock must still never step back.
// ================================================================================================
static mut REANNOUNCED: u32 = 0;
/// Contract of Guard::defer_destroy INCLUDING the side effect of Local::defer's overflow path on the
/// deferring participant: with `collecting` set, the participant's announced epoch may be refreshed to
/// the current global epoch (the real `repin_without_collect` is called to do it).
unsafe fn k_defer_destroy_may_reannounce<T>(g: &Guard, _ptr: RawShared<T>) {
    DESTROYS += 1;
    if let Some(l) = g.local.as_ref() {
        if l.collecting.get() && kani::any() {
            l.repin_without_collect();
            REANNOUNCED += 1;
            PIN_VAL = raw_epoch(&l.epoch) & !1;      // the environment now sees me pinned there
        }
    }
}

#[kani::proof]
#[kani::stub(std::sync::atomic::Atomic::<usize>::load, u_load)]
#[kani::stub(std::sync::atomic::Atomic::<usize>::store, u_store)]
#[kani::stub(std::sync::atomic::Atomic::<usize>::compare_exchange, u_cas)]
#[kani::stub(std::sync::atomic::Atomic::<usize>::fetch_or, u_fetch_or)]
#[kani::stub(Guard::defer_destroy, k_defer_destroy_may_reannounce)]
#[kani::unwind(4)]
fn c14_try_advance_monotone_under_reannouncement() {
    unsafe {
        let c: &'static Collector = leak(Collector::new());
        let me_store = ManuallyDrop::new(mk_local(c, 2));
        let b_store = ManuallyDrop::new(mk_local(c, 2));
        let (me, b): (&Local, &Local) = (&me_store, &b_store);
        kani::assume((&me.entry as *const Entry as usize) & 7 == 0 && (&b.entry as *const Entry as usize) & 7 == 0);
        // registry: head -> me -> b, b logically removed (its owner exited): my scan will unlink it
        crate::ebr_impl::sync::list::verif_list::link_raw(&c.global.locals, &[&me.entry, &b.entry], &[false, true]);
        let e: usize = kani::any(); kani::assume(e & 1 == 0 && e < usize::MAX - 8);
        me.guard_count.set(1);
        set_raw_epoch(&me.epoch, e | 1);
        me.collecting.set(true);                       // inside unpin's collection loop
        set_raw_epoch(&b.epoch, 0);
        set_raw_epoch(&c.global.epoch, if kani::any() { e + 2 } else { e });
        GWORD = epoch_word(&c.global.epoch);
        G_MODE = 2; PIN_VAL = e; G_BUDGET = budget();
        let guard = ManuallyDrop::new(Guard { local: me });
        let _ = c.global.try_advance(&guard);
        if G_STORES >= 1 {
            assert!(G_STORE_VAL == G_BEFORE_STORE || G_STORE_VAL == G_BEFORE_STORE.wrapping_add(2),
                    "C14.advance.never_steps_back_even_if_callers_announcement_moves_during_the_scan");
        }
        kani::cover!(REANNOUNCED == 1 && G_STORES == 1, "cover.advance.reannounced_then_stored");
        kani::cover!(DESTROYS == 1, "cover.advance.unlinked_removed_participant");
    }
}
