// Rely/guarantee contracts for the count-word protocol of `RcInner` (DESIGN 2.4).
// Child module of crate::utils.  Serves C01, C03, C04, C05 (and the stamp clauses of C02).
//
// The shared state of one object is ONE 64-bit word, updated only by SeqCst atomics.  Every atomic
// method of `Atomic<u64>` is replaced (Kani stub) by a wrapper that
//   1. lets the ENVIRONMENT take an arbitrary step allowed by the rely `R` (havoc of word + ledger),
//   2. performs the real operation on the word,
//   3. classifies MY step old -> new as one of the protocol's transitions, updates the ghost ledger
//      by the transition's rule and asserts the guarantee `G` (invariant, frame, only my own shares).
// No line of /repo is changed for this: the real function bodies are what Kani compiles.
#![allow(dead_code, unused_imports, static_mut_refs, unused_variables)]
use super::*;
use crate::Rc;

// ------------------------------------------------------------------------------------------------
// Ghost ledger of ONE object (harness-side only)
// ------------------------------------------------------------------------------------------------
#[derive(Clone, Copy)]
pub(crate) struct Ledger {
    pub o: u32,        // strong owners (Rc values, AtomicRc contents, unyielded NewRcIter shares)
    pub p: u32,        // pending destruction attempts (deferred try_destruct / in-flight cascade), <= 1
    pub wn: u32,       // weak owners (Weak values, AtomicWeak contents)
    pub q: u32,        // pending deallocation attempts (deferred try_dealloc), <= 1
    pub imp: bool,     // the strong side's implicit weak share is still held
    pub popped: bool,  // pop_edges ran
    pub dropped: bool, // payload destructor ran
    pub freed: bool,   // block deallocated
}
#[derive(Clone, Copy)]
pub(crate) struct Shares { pub o: u32, pub p: u32, pub wn: u32, pub q: u32, pub imp: bool }

pub(crate) static mut L: Ledger = Ledger { o: 0, p: 0, wn: 0, q: 0, imp: true, popped: false, dropped: false, freed: false };
pub(crate) static mut MY: Shares = Shares { o: 0, p: 0, wn: 0, q: 0, imp: false };
pub(crate) static mut OBJ: usize = 0;          // address of the word under proof
pub(crate) static mut BUDGET: u32 = 0;         // environment interference budget (stutter lemma)
pub(crate) static mut STEPS: u32 = 0;          // my effective atomic steps so far
pub(crate) static mut DEC_KIND: u8 = 0;        // who pays for a strong/weak decrement: 0 owner, 1 pending token, 2 implicit share
pub(crate) static mut PROTECTED: bool = false; // caller holds a guard under which the pending attempt cannot run (A-EBR)
pub(crate) static mut QUIESCENT_WEAK: bool = false; // try_dealloc context: nobody else can reach the block while Wk == 0 (A-EBR)
pub(crate) static mut EPOCH_READ: usize = 0;   // value returned by the stubbed global_epoch()
pub(crate) static mut EPOCH_READS: u32 = 0;
/// increments I left on the (dead) strong field of a DESTRUCTED object and have not taken back
pub(crate) static mut MY_RESIDUE: u32 = 0;
pub(crate) static mut LIN_WORD: u64 = 0;
pub(crate) static mut MY_LAST_NEW: u64 = 0;      // word written by my last effective step
fn word_after_my_step_strong() -> u32 { unsafe { State::from_raw(MY_LAST_NEW).strong() } }       // word observed by my last RMW / CAS-success / final load (linearisation point)
pub(crate) static mut IN_DEFER: bool = false;
pub(crate) static mut DEFER_DESTRUCT: u32 = 0;
pub(crate) static mut DEFER_DEALLOC: u32 = 0;
pub(crate) static mut DEFER_PTR: usize = 0;
pub(crate) static mut DIRECT_DESTRUCT: u32 = 0;
pub(crate) static mut DISPOSE_CALLS: u32 = 0;
pub(crate) static mut DEALLOC_CALLS: u32 = 0;
pub(crate) static mut DEC_STRONG_CALLS: u32 = 0;
pub(crate) static mut DEC_WEAK_CALLS: u32 = 0;

/// The five fields of an object's count word, for the L2 harnesses (strong.rs / weak.rs cannot name
/// the private `state` field).
pub(crate) unsafe fn peek<T>(p: *const RcInner<T>) -> (u32, u32, bool, bool, u32) {
    let s = State::from_raw(rd(&(*p).state));
    (s.strong(), s.weak(), s.destructed(), s.weaked(), s.epoch())
}
const RANGE: u32 = 1 << 28; // A-RANGE
/// Interference budget B of the stutter lemma (DESIGN 2.5): quick 2, thorough 3.
pub(crate) fn budget() -> u32 { match option_env!("VERIF_BUDGET") { Some("3") => 3, Some("1") => 1, _ => 2 } }

// ------------------------------------------------------------------------------------------------
// The invariant
// ------------------------------------------------------------------------------------------------
pub(crate) fn inv_strong(w: u64, g: &Ledger) -> bool {
    let s = State::from_raw(w);
    (!g.dropped || g.popped)                         // pop_edges before the destructor
        && if s.destructed() {
            g.o == 0 && g.p == 0
        } else {
            !g.popped && !g.dropped                  // destruction has begun => DESTRUCTED (I3)
                && g.p <= 1
                && (s.strong() != 0 || (g.o == 0 && g.p == 1))
                && (s.strong() == 0 || s.strong() as u64 == g.o as u64 + g.p as u64)
        }
}
pub(crate) fn inv_weak(w: u64, g: &Ledger) -> bool {
    let s = State::from_raw(w);
    if g.freed { return g.wn == 0 && g.q == 0 && !g.imp && g.dropped; }
    let held = g.wn as u64 + g.imp as u64 + g.q as u64;
    g.q <= 1
        && g.imp == !g.dropped                       // the implicit share is released exactly by the destructor
        && (g.wn == 0 || s.weaked())                 // explicit weak owners imply WEAKED
        && (s.weaked() || (s.weak() == 1 && g.imp && g.q == 0)) // never weaked: only the implicit share
        && (s.weak() != 0 || (g.wn == 0 && !g.imp && g.q == 1))
        && (s.weak() == 0 || s.weak() as u64 == held)
}
pub(crate) fn inv(w: u64, g: &Ledger) -> bool { inv_strong(w, g) && inv_weak(w, g) }
/// A-RANGE: counts far enough below the field width that no step of the protocol can carry.
pub(crate) fn in_range(w: u64, g: &Ledger) -> bool {
    let s = State::from_raw(w);
    g.o < RANGE && g.wn < RANGE && s.strong() < RANGE && s.weak() < RANGE
}
/// Which half of the invariant the harness at hand maintains and checks (the other half of the word
/// is still havocked by the environment and must be framed by my steps).
pub(crate) static mut HALF: u8 = 2; // 0 strong, 1 weak, 2 both
pub(crate) fn inv_h(w: u64, g: &Ledger) -> bool {
    match unsafe { HALF } { 0 => inv_strong(w, g), 1 => inv_weak(w, g), _ => inv(w, g) }
}

/// Rely: what any number of environment steps may do between two of my atomic accesses.
pub(crate) fn rely(w0: u64, g0: &Ledger, w1: u64, g1: &Ledger, my: &Shares) -> bool {
    let (a, b) = (State::from_raw(w0), State::from_raw(w1));
    inv_h(w1, g1) && in_range(w1, g1)
        // monotone flags
        && (!a.destructed() || b.destructed()) && (!a.weaked() || b.weaked())
        && (!g0.popped || g1.popped) && (!g0.dropped || g1.dropped) && (!g0.freed || g1.freed)
        // an owner keeps the object alive (lemma C01.lemma.owner_implies_alive, needed when only one half is tracked)
        && (my.o == 0 || (!b.destructed() && !g1.popped && !g1.dropped && !g1.freed))
        && (my.wn == 0 || !g1.freed)
        // my shares are mine
        && g1.o >= my.o && g1.p >= my.p && g1.wn >= my.wn && g1.q >= my.q && (!my.imp || g1.imp)
        // only the holder of the pending attempt may consume its materialised token or set DESTRUCTED
        && (my.p == 0 || (b.destructed() == a.destructed() && (a.strong() == 0 || b.strong() != 0)
                          && g1.popped == g0.popped && g1.dropped == g0.dropped))
        && (my.q == 0 || (g1.freed == g0.freed && (a.weak() == 0 || b.weak() != 0)))
        // the destructor (holder of the implicit share after DESTRUCTED) is the only one to pop/drop
        && (!(my.imp && a.destructed()) || (g1.popped == g0.popped && g1.dropped == g0.dropped))
        // guard protection (A-EBR): a pending attempt deferred after my pin cannot run
        && (!unsafe { PROTECTED } || (b.destructed() == a.destructed() && g1.freed == g0.freed && g1.p >= g0.p && g1.q >= g0.q
                                       && (g0.p == 0 || a.strong() == 0 || b.strong() != 0)
                                       && (g0.q == 0 || a.weak() == 0 || b.weak() != 0)
                                       && g1.popped == g0.popped && g1.dropped == g0.dropped))
        // try_dealloc context (A-EBR): with Wk == 0 nobody else can reach the block
        && (!unsafe { QUIESCENT_WEAK } || a.weak() != 0 || w1 == w0)
        // the strong field of a destructed object is zero when DESTRUCTED is set (the CAS observes zero) and from then on
        // only counts the increments of failed upgrades not yet taken back, each thread taking back only its own
        && (!b.destructed() || b.strong() >= unsafe { MY_RESIDUE })
}

// ------------------------------------------------------------------------------------------------
// Atomic wrappers (Kani stubs for std::sync::atomic::Atomic::<u64>::*)
// ------------------------------------------------------------------------------------------------
fn cell(a: &AtomicU64) -> *mut u64 { a as *const AtomicU64 as *mut u64 }
pub(crate) fn rd(a: &AtomicU64) -> u64 { unsafe { *cell(a) } }
pub(crate) fn wr(a: &AtomicU64, v: u64) { unsafe { *cell(a) = v } }

unsafe fn env_step(a: &AtomicU64) {
    if cell(a) as usize != OBJ { return; }
    if BUDGET > 0 && kani::any() {
        BUDGET -= 1;
        let w0 = rd(a);
        let w1: u64 = kani::any();
        let mut g1 = L;
        if HALF != 1 { g1.o = kani::any(); g1.p = kani::any(); g1.popped = kani::any(); }
        if HALF != 0 { g1.wn = kani::any(); g1.q = kani::any(); g1.imp = kani::any(); g1.freed = kani::any(); }
        g1.dropped = kani::any();
        kani::assume(rely(w0, &L, w1, &g1, &MY));
        wr(a, w1);
        L = g1;
    }
}

/// My step old -> new: classify, apply the ledger rule, assert the guarantee.
unsafe fn my_step(a: &AtomicU64, old: u64, new: u64) {
    if cell(a) as usize != OBJ { return; }
    LIN_WORD = old;
    if old == new { return; }
    STEPS += 1;
    MY_LAST_NEW = new;
    let (p, n) = (State::from_raw(old), State::from_raw(new));
    let others = (L.o - MY.o, L.p - MY.p, L.wn - MY.wn, L.q - MY.q);
    assert!(!L.freed, "C03.step.no_access_after_free");
    let weak_same = n.weak() == p.weak() && n.weaked() == p.weaked();
    let strong_same = n.strong() == p.strong() && n.destructed() == p.destructed() && n.epoch() == p.epoch();
    let stamp_fresh = n.epoch() as usize == EPOCH_READ % (1usize << EPOCH_WIDTH) && EPOCH_READS >= 1;
    if weak_same && n.destructed() == p.destructed() && n.strong() == p.strong() && !p.destructed() && stamp_fresh {
        // T_stamp: a guard-protected reader refreshes the stamp with an epoch it read (owns nothing)
    } else if weak_same && n.destructed() == p.destructed() && n.strong() as u64 == p.strong() as u64 + 1 && (n.epoch() == p.epoch() || stamp_fresh) {
        // T_inc: strong + 1 (possibly refreshing the stamp)
        if p.destructed() {
            // counting on a destructed object: owns nothing - and must be taken back (C04: failed upgrades leave no trace)
            MY_RESIDUE += 1;
        } else if p.strong() == 0 {
            // the missing token of the pending attempt (S = O + P is re-established: 1 = 0 + 1)
        } else {
            L.o += 1; MY.o += 1;
        }
    } else if weak_same && p.destructed() && n.destructed() && n.epoch() == p.epoch() && n.strong() + 1 == p.strong() && MY_RESIDUE >= 1 {
        // T_undo: I take back an increment I left on a destructed object
        MY_RESIDUE -= 1;
    } else if weak_same && n.destructed() == p.destructed() && n.strong() < p.strong() {
        // T_dec: strong - c, stamped with the epoch read before the step
        let c = p.strong() - n.strong();
        assert!(n.epoch() as usize == EPOCH_READ % (1usize << EPOCH_WIDTH) && EPOCH_READS >= 1, "C02.dec.stamp_is_epoch_read_before_cas");
        assert!(!p.destructed(), "C01.dec.not_on_destructed");
        if DEC_KIND == 0 {
            assert!(MY.o >= c, "C01.dec.only_own_shares");
            L.o -= c; MY.o -= c;
        } else {
            assert!(c == 1 && MY.p == 1, "C01.dec.token_only_by_pending_attempt");
            L.p -= 1; MY.p -= 1;
        }
        if n.strong() == 0 { L.p += 1; MY.p += 1; }   // I am now the pending attempt and must hand it to EBR
    } else if weak_same && n.strong() == p.strong() && n.epoch() == p.epoch() && !p.destructed() && n.destructed() {
        // T_setD: destruction begins
        assert!(p.strong() == 0, "C01.destruct.only_at_zero_count");
        assert!(MY.p == 1, "C04.destruct.only_by_pending_attempt");
        L.p -= 1; MY.p -= 1;
        MY.imp = true;                                 // I am the destructor: I hold the implicit weak share
    } else if strong_same && n.weak() >= p.weak() && n.weaked() {
        // T_incw: weak + c, WEAKED set (c = 0 only when it newly sets WEAKED)
        let c = n.weak() - p.weak();
        assert!(p.weak() != 0 || p.weaked(), "C03.incw.cas_path_never_from_zero");
        if p.weak() == 0 { L.wn += c - 1; MY.wn += c - 1; }  // one unit is the pending try_dealloc's token
        else { L.wn += c; MY.wn += c; }
    } else if strong_same && n.weaked() == p.weaked() && n.weak() as u64 + 1 == p.weak() as u64 {
        // T_decw: weak - 1
        if DEC_KIND == 0 { assert!(MY.wn >= 1, "C03.decw.only_own_share"); L.wn -= 1; MY.wn -= 1; }
        else if DEC_KIND == 2 { assert!(MY.imp && L.dropped, "C04.decw.implicit_share_released_after_drop"); MY.imp = false; L.imp = false; }
        else { assert!(MY.q == 1, "C03.decw.token_only_by_pending_attempt"); L.q -= 1; MY.q -= 1; }
        if n.weak() == 0 { L.q += 1; MY.q += 1; }
    } else {
        assert!(false, "C01.step.not_a_protocol_transition");
    }
    // guarantee
    assert!(inv_h(new, &L), "C01.step.invariant_preserved");
    assert!((L.o - MY.o, L.p - MY.p, L.wn - MY.wn, L.q - MY.q) == others, "C01.step.only_my_shares_change");
}

pub(crate) fn a_load(a: &AtomicU64, _o: Ordering) -> u64 {
    unsafe { env_step(a); let v = rd(a); my_step(a, v, v); v }
}
pub(crate) fn a_fetch_add(a: &AtomicU64, v: u64, _o: Ordering) -> u64 {
    unsafe { env_step(a); let old = rd(a); let new = old.wrapping_add(v); wr(a, new); my_step(a, old, new); old }
}
pub(crate) fn a_fetch_sub(a: &AtomicU64, v: u64, _o: Ordering) -> u64 {
    unsafe { env_step(a); let old = rd(a); let new = old.wrapping_sub(v); wr(a, new); my_step(a, old, new); old }
}
pub(crate) fn a_cas(a: &AtomicU64, cur: u64, new: u64, _s: Ordering, _f: Ordering) -> Result<u64, u64> {
    unsafe {
        env_step(a);
        let old = rd(a);
        if old == cur { wr(a, new); my_step(a, old, new); Ok(old) } else { my_step(a, old, old); Err(old) }
    }
}

// ------------------------------------------------------------------------------------------------
// EBR entry points (A-EBR) and callee recorders
// ------------------------------------------------------------------------------------------------
pub(crate) fn s_global_epoch() -> usize { unsafe { EPOCH_READS += 1; if CS_ENTERED == 0 && !GUARD_GIVEN { EPOCH_READS_UNPINNED += 1; } EPOCH_READ } }
/// critical sections entered by the function under contract so far / a caller's guard was passed in
pub(crate) static mut CS_ENTERED: u32 = 0;
pub(crate) static mut GUARD_GIVEN: bool = false;
/// epoch reads made while the calling thread was NOT in a critical section: such a value can be
/// arbitrarily stale by the time it is published (C02: "every delay of a thread between reading the
/// epoch and publishing a counter update"); a pinned thread lags the clock by at most one.
pub(crate) static mut EPOCH_READS_UNPINNED: u32 = 0;
/// `incr_manual_collection` only schedules collections (liveness); it never touches an object.
pub(crate) fn s_incr_manual_collection(_g: &Guard) { unsafe { MANUAL_EVENTS += 1; } }
pub(crate) static mut MANUAL_EVENTS: u32 = 0;
pub(crate) fn s_cs() -> Guard { unsafe { CS_ENTERED += 1; } Guard { local: core::ptr::null() } }
/// Contract of `Guard::defer_unchecked` (A-EBR): the closure is stored and will run exactly once
/// later.  To learn WHAT was deferred the closure is run against the recording callees below.
pub(crate) unsafe fn s_defer_unchecked<F, R>(_g: &Guard, f: F) where F: FnOnce() -> R {
    assert!(!IN_DEFER, "C15.defer.not_nested");
    IN_DEFER = true;
    let _ = f();
    IN_DEFER = false;
}
pub(crate) unsafe fn rec_try_destruct<T: RcObject>(ptr: *mut RcInner<T>) {
    if IN_DEFER {
        DEFER_DESTRUCT += 1; DEFER_PTR = ptr as usize;
        assert!(MY.p >= 1, "C04.defer.destruct_only_when_i_am_pending");
        MY.p -= 1;                                   // handed over to EBR (A-EBR runs it exactly once)
    } else {
        DIRECT_DESTRUCT += 1;
        assert!(false, "C02.destruct_only_through_ebr_deferral");
    }
}
pub(crate) unsafe fn rec_try_dealloc<T>(ptr: *mut RcInner<T>) {
    assert!(IN_DEFER, "C03.dealloc_only_through_ebr_deferral");
    DEFER_DEALLOC += 1; DEFER_PTR = ptr as usize;
    assert!(MY.q >= 1, "C04.defer.dealloc_only_when_i_am_pending");
    MY.q -= 1;
}
pub(crate) unsafe fn rec_dispose<T: RcObject>(ptr: *mut RcInner<T>) {
    DISPOSE_CALLS += 1; DEFER_PTR = ptr as usize;
    assert!(!IN_DEFER, "C04.dispose.not_deferred");
    assert!(MY.imp && State::from_raw(rd(&(*ptr).state)).destructed(), "C05.dispose.only_after_destructed_set_by_me");
}
pub(crate) unsafe fn rec_dealloc<T>(ptr: *mut RcInner<T>) {
    DEALLOC_CALLS += 1;
    assert!(!L.freed, "C04.free.at_most_once");
    assert!(L.wn == 0, "C03.free.no_weak_owner_left");
    assert!(L.dropped, "C04.free.only_after_destructor");
    // the caller is either the pending deallocation attempt or the destructor releasing the implicit share
    assert!((MY.q == 1 && L.q == 1 && !L.imp) || (MY.imp && L.imp && L.q == 0), "C03.free.only_by_last_share_holder");
    if MY.q == 1 { MY.q = 0; L.q = 0; } else { MY.imp = false; L.imp = false; }
    L.freed = true;
}

// ------------------------------------------------------------------------------------------------
// Harness object
// ------------------------------------------------------------------------------------------------
pub(crate) struct N { pub v: u8 }
unsafe impl RcObject for N { fn pop_edges(&mut self, _out: &mut Vec<Rc<Self>>) {} }

/// An object whose word and ledger are arbitrary but satisfy the invariant.
pub(crate) unsafe fn any_object() -> *mut RcInner<N> {
    let p = Box::into_raw(Box::new(RcInner { storage: ManuallyDrop::new(N { v: 7 }), state: AtomicU64::new(0) }));
    let w: u64 = kani::any();
    L = Ledger { o: kani::any(), p: kani::any(), wn: kani::any(), q: kani::any(), imp: kani::any(),
                 popped: kani::any(), dropped: kani::any(), freed: false };
    kani::assume(inv(w, &L) && in_range(w, &L));
    wr(&(*p).state, w);
    OBJ = cell(&(*p).state) as usize;
    MY = Shares { o: 0, p: 0, wn: 0, q: 0, imp: false };
    EPOCH_READ = kani::any();
    kani::assume(EPOCH_READ < (1usize << 62));
    p
}
pub(crate) unsafe fn word(p: *mut RcInner<N>) -> State { State::from_raw(rd(&(*p).state)) }

macro_rules! rg_harness {
    ($(#[$m:meta])* fn $name:ident() $body:block) => {
        #[kani::proof]
        #[kani::stub(std::sync::atomic::Atomic::<u64>::load, a_load)]
        #[kani::stub(std::sync::atomic::Atomic::<u64>::fetch_add, a_fetch_add)]
        #[kani::stub(std::sync::atomic::Atomic::<u64>::fetch_sub, a_fetch_sub)]
        #[kani::stub(std::sync::atomic::Atomic::<u64>::compare_exchange, a_cas)]
        #[kani::stub(crate::ebr_impl::global_epoch, s_global_epoch)]
        #[kani::stub(crate::ebr_impl::cs, s_cs)]
        #[kani::stub(Guard::defer_unchecked, s_defer_unchecked)]
        #[kani::stub(Guard::incr_manual_collection, s_incr_manual_collection)]
        #[kani::stub(crate::ebr_impl::internal::Local::unpin, crate::ebr_impl::internal::verif_cut::s_unpin_unreachable)]
        $(#[$m])*
        fn $name() { #[allow(unused_unsafe)] unsafe { $body } }
    };
}

// ================================================================================================
// Side conditions of the R/G argument (pure formulas)
// ================================================================================================
fn any_ledger() -> Ledger {
    Ledger { o: kani::any(), p: kani::any(), wn: kani::any(), q: kani::any(), imp: kani::any(),
             popped: kani::any(), dropped: kani::any(), freed: kani::any() }
}
fn any_shares() -> Shares { Shares { o: kani::any(), p: kani::any(), wn: kani::any(), q: kani::any(), imp: kani::any() } }

/// R is reflexive on invariant states and transitive: any finite sequence of environment steps is
/// one R step, which is what the havoc in `env_step` ranges over.
#[kani::proof]
fn rg_rely_reflexive_transitive() {
    let (w0, w1, w2): (u64, u64, u64) = (kani::any(), kani::any(), kani::any());
    let (g0, g1, g2) = (any_ledger(), any_ledger(), any_ledger());
    let my = any_shares();
    unsafe { PROTECTED = kani::any(); QUIESCENT_WEAK = kani::any(); }
    unsafe { HALF = kani::any(); kani::assume(HALF <= 2); }
    // initial states (full invariant, whatever half the harness tracks afterwards) admit the stutter step
    if inv(w0, &g0) && in_range(w0, &g0) && g0.o >= my.o && g0.p >= my.p && g0.wn >= my.wn && g0.q >= my.q && (!my.imp || g0.imp) {
        assert!(rely(w0, &g0, w0, &g0, &my), "C01.rg.rely_reflexive_on_initial_states");
    }
    // ... and so does every state reached by an environment step
    if rely(w0, &g0, w1, &g1, &my) {
        assert!(rely(w1, &g1, w1, &g1, &my), "C01.rg.rely_reflexive_on_reached_states");
    }
    if rely(w0, &g0, w1, &g1, &my) && rely(w1, &g1, w2, &g2, &my) {
        assert!(rely(w0, &g0, w2, &g2, &my), "C01.rg.rely_transitive");
    }
    kani::cover!(rely(w0, &g0, w1, &g1, &my) && w0 != w1, "cover.rely.nontrivial");
}

/// Safety lemmas over the invariant: what the ledger means for users.
#[kani::proof]
fn rg_safety_lemmas() {
    let w: u64 = kani::any();
    let g = any_ledger();
    if inv(w, &g) {
        let s = State::from_raw(w);
        if g.o > 0 { assert!(!s.destructed() && !g.popped && !g.dropped && !g.freed, "C01.lemma.owner_implies_alive"); }
        if g.wn > 0 { assert!(!g.freed, "C03.lemma.weak_owner_implies_allocated"); }
        if g.popped || g.dropped { assert!(s.destructed(), "C05.lemma.destruction_begun_implies_destructed"); }
        if g.dropped { assert!(g.popped, "C04.lemma.pop_edges_before_drop"); }
        if !s.destructed() && s.strong() == 0 { assert!(g.p == 1, "C04.lemma.zero_count_has_pending_attempt"); }
        if !g.freed && s.weak() == 0 { assert!(g.q == 1, "C04.lemma.zero_weak_has_pending_dealloc"); }
        if g.freed { assert!(g.dropped && g.wn == 0, "C03.lemma.freed_only_after_drop_and_no_weak"); }
    }
    kani::cover!(inv(w, &g) && g.o > 1 && g.wn > 1, "cover.inv.shared_object");
    kani::cover!(inv(w, &g) && g.dropped && !g.freed && g.wn == 1, "cover.inv.destructed_but_weakly_held");
    kani::cover!(inv(w, &g) && !State::from_raw(w).destructed() && State::from_raw(w).strong() == 0, "cover.inv.zero_pending");
}

// ================================================================================================
// L1 contracts
// ================================================================================================

rg_harness! {
/// alloc(obj, n): fresh block with S = n, Wk = 1 (the implicit share), no flags, stamp 0.
fn rg_alloc() {
    let n: u32 = kani::any();
    kani::assume(n >= 1 && n < RANGE);
    let p = RcInner::alloc(N { v: 3 }, n);
    let s = word(p);
    assert!(s.strong() == n && s.weak() == 1 && !s.destructed() && !s.weaked() && s.epoch() == 0, "C10.alloc.word");
    let g = Ledger { o: n, p: 0, wn: 0, q: 0, imp: true, popped: false, dropped: false, freed: false };
    assert!(inv(rd(&(*p).state), &g), "C01.alloc.establishes_invariant");
    assert!((*p).data().v == 3, "C01.alloc.payload");
}}

rg_harness! {
/// increment_strong called by a strong owner (Rc::clone): always succeeds, +1 owner.
#[kani::unwind(7)]
fn rg_increment_strong_owner() {
    let p = any_object(); HALF = 0;
    MY.o = 1; kani::assume(L.o >= 1);
    BUDGET = budget();
    let r = (*p).increment_strong();
    assert!(r, "C01.inc.owner_always_succeeds");
    assert!(MY.o == 2, "C01.inc.owner_gains_exactly_one");
    assert!(inv_h(rd(&(*p).state), &L), "C01.inc.exit_invariant");
    kani::cover!(BUDGET < budget(), "cover.inc_owner.interference_used");
}}

rg_harness! {
/// increment_strong under a guard that protects the object (Snapshot::counted): the pending attempt,
/// if any, cannot run during the call (A-EBR); always succeeds, +1 owner, also from a zero count.
#[kani::unwind(7)]
fn rg_increment_strong_protected() {
    let p = any_object(); HALF = 0;
    kani::assume(!word(p).destructed());
    PROTECTED = true;
    BUDGET = budget();
    let r = (*p).increment_strong();
    assert!(r, "C01.inc.protected_always_succeeds");
    assert!(MY.o == 1, "C01.inc.protected_gains_exactly_one");
    kani::cover!(STEPS == 2, "cover.inc_protected.from_zero");
}}

rg_harness! {
/// increment_strong with no protection at all (Weak::upgrade): any interleaving.
/// true  => exactly one new owner, and the linearising RMW saw the object not destructed;
/// false => nothing gained, and the linearising RMW saw DESTRUCTED.
#[kani::unwind(7)]
fn rg_increment_strong_unguarded() {
    let p = any_object(); HALF = 0;
    MY.wn = 1; kani::assume(L.wn >= 1);             // the caller's Weak keeps the block allocated
    BUDGET = budget();
    let r = (*p).increment_strong();
    let lin = State::from_raw(LIN_WORD);
    if r {
        assert!(MY.o == 1, "C05.upgrade.success_gains_exactly_one_owner");
        assert!(!lin.destructed(), "C05.upgrade.success_only_if_not_destructed");
        assert!(!word(p).destructed() && !L.dropped, "C01.upgrade.result_is_alive");
    } else {
        assert!(MY.o == 0, "C05.upgrade.failure_gains_nothing");
        assert!(lin.destructed(), "C05.upgrade.failure_only_if_destructed");
    }
    assert!(MY.wn == 1 && !L.freed, "C03.upgrade.weak_share_untouched");
    assert!(MY_RESIDUE == 0, "C04.upgrade.failed_upgrade_leaves_no_trace_on_the_count_word");
    assert!(inv_h(rd(&(*p).state), &L), "C01.upgrade.exit_invariant");
    kani::cover!(r && STEPS >= 2, "cover.upgrade.from_zero");
    kani::cover!(!r, "cover.upgrade.fails");
    kani::cover!(r && BUDGET == 0, "cover.upgrade.full_interference");
}}

rg_harness! {
/// is_not_destructed (WeakSnapshot::upgrade), caller protected by its guard.
/// true  => not destructed at the linearisation point, and if the count was zero a token was added
///          by CAS so that the pending attempt re-defers (the Snapshot outlives it: C02);
/// false => DESTRUCTED was observed.  Owns nothing either way.
#[kani::unwind(7)]
fn rg_is_not_destructed() {
    let p = any_object(); HALF = 0;
    BUDGET = budget();
    let r = (*p).is_not_destructed();
    let lin = State::from_raw(LIN_WORD);
    assert!(r == !lin.destructed(), "C05.wsnap_upgrade.result_iff_not_destructed_at_lin_point");
    assert!(MY.o == 0 && MY.p == 0, "C05.wsnap_upgrade.owns_nothing");
    if r { assert!(lin.strong() != 0 || STEPS == 1, "C02.wsnap_upgrade.token_added_when_zero"); }
    // the Snapshot handed out must be protected against IMMEDIATE (cascade) reclamation too: the count word
    // carries an epoch read during this call, so that the newest-of-three stamp test classifies it recent
    if r { assert!(EPOCH_READS >= 1 && word(p).epoch() as usize == EPOCH_READ % (1usize << EPOCH_WIDTH), "C02.wsnap_upgrade.success_leaves_stamp_of_epoch_read_in_this_call"); }
    if r { assert!(STEPS <= 1 && State::from_raw(rd(&(*p).state)).strong() >= 1, "C02.wsnap_upgrade.success_leaves_nonzero_count"); }
    if r && STEPS == 1 { assert!((lin.strong() == 0) == (word_after_my_step_strong() == lin.strong() + 1), "C05.wsnap_upgrade.token_only_from_zero"); }
    assert!(STEPS <= 1 && (r || STEPS == 0), "C05.wsnap_upgrade.at_most_one_write_none_on_failure");
    assert!(inv_h(rd(&(*p).state), &L), "C05.wsnap_upgrade.exit_invariant");
    kani::cover!(r && STEPS == 1, "cover.wsnap.token");
    kani::cover!(!r, "cover.wsnap.fails");
}}

unsafe fn decrement_strong_contract(with_guard: bool) {
    let p = any_object(); HALF = 0;
    let count: u32 = kani::any();
    kani::assume(count >= 1 && L.o >= count);
    MY.o = count; DEC_KIND = 0;
    let others = L.o - count;
    BUDGET = budget();
    let g = s_cs();
    CS_ENTERED = 0; GUARD_GIVEN = with_guard;
    RcInner::decrement_strong(p, count, if with_guard { Some(&g) } else { None });
    assert!(EPOCH_READS_UNPINNED == 0, "C02.dec.stamped_epoch_is_read_inside_a_critical_section");
    assert!(STEPS == 1, "C01.dec.exactly_one_step");
    assert!(MY.o == 0, "C01.dec.releases_exactly_count");
    let hit_zero = State::from_raw(LIN_WORD).strong() == count;
    assert!(DEFER_DESTRUCT == hit_zero as u32, "C04.dec.defers_try_destruct_iff_hit_zero");
    assert!(DEFER_DESTRUCT == 0 || DEFER_PTR == p as usize, "C04.dec.defers_on_this_object");
    assert!(MY.p == 0, "C04.dec.pending_attempt_handed_to_ebr");
    assert!(DIRECT_DESTRUCT == 0 && DISPOSE_CALLS == 0, "C02.dec.never_destructs_directly");
    assert!(EPOCH_READS >= 1, "C02.dec.reads_epoch_before_its_step");
    assert!(inv_h(rd(&(*p).state), &L), "C01.dec.exit_invariant");
    kani::cover!(hit_zero, "cover.dec.hit_zero");
    kani::cover!(!hit_zero && BUDGET == 0, "cover.dec.interference");
    kani::cover!(count > 1, "cover.dec.bulk");
}
rg_harness! {
/// decrement_strong(count) by an owner of >= count shares: one atomic step that subtracts exactly
/// count and stamps the epoch read BEFORE the step; reaching zero never destructs directly but
/// defers exactly one try_destruct on this object; otherwise nothing is deferred.
#[kani::stub(RcInner::try_destruct, rec_try_destruct)]
#[kani::unwind(7)]
fn rg_decrement_strong_noguard() { decrement_strong_contract(false); }}

rg_harness! {
/// (same, with the caller's guard passed in)
/// decrement_strong(count) by an owner of >= count shares: one atomic step that subtracts exactly
/// count and stamps the epoch read BEFORE the step; reaching zero never destructs directly but
/// defers exactly one try_destruct on this object; otherwise nothing is deferred.
#[kani::stub(RcInner::try_destruct, rec_try_destruct)]
#[kani::unwind(7)]
fn rg_decrement_strong_guard() { decrement_strong_contract(true); }}

/// Contract of decrement_strong as seen by try_destruct (callee abstracted by its contract).
pub(crate) unsafe fn c_decrement_strong<T: RcObject>(ptr: *mut RcInner<T>, count: u32, guard: Option<&Guard>) {
    DEC_STRONG_CALLS += 1;
    let a = &(*ptr).state;
    env_step(a);
    let old = rd(a);
    let s = State::from_raw(old);
    assert!(s.strong() >= count, "C01.dec.pre_count_available");
    EPOCH_READS += 1;
    let new = s.with_epoch(EPOCH_READ).sub_strong(count).as_raw();
    wr(a, new);
    my_step(a, old, new);
    if State::from_raw(new).strong() == 0 { DEFER_DESTRUCT += 1; DEFER_PTR = ptr as usize; MY.p -= 1; }
}

rg_harness! {
/// try_destruct, run by THE pending attempt: either consumes the token by a decrement (count was
/// re-incremented meanwhile) or sets DESTRUCTED by a CAS that observed a zero count and only then
/// disposes - exactly once, never both.
#[kani::stub(RcInner::decrement_strong, c_decrement_strong)]
#[kani::stub(dispose, rec_dispose)]
#[kani::unwind(7)]
fn rg_try_destruct() {
    let p = any_object(); HALF = 0;
    kani::assume(L.p == 1 && !word(p).destructed());
    MY.p = 1; DEC_KIND = 1;
    BUDGET = budget();
    RcInner::try_destruct(p);
    assert!(MY.p == 0, "C04.try_destruct.attempt_resolved");
    assert!(DISPOSE_CALLS + DEC_STRONG_CALLS == 1, "C04.try_destruct.exactly_one_outcome");
    if DISPOSE_CALLS == 1 {
        assert!(word(p).destructed() && State::from_raw(LIN_WORD).strong() == 0, "C01.try_destruct.disposes_only_after_zero_observed_by_cas");
        assert!(DEFER_PTR == p as usize, "C04.try_destruct.disposes_this_object");
        assert!(L.o == 0, "C01.try_destruct.no_owner_when_disposing");
    } else {
        assert!(!word(p).destructed() || L.p == 0, "C01.try_destruct.decrement_path_keeps_alive");
    }
    assert!(inv_h(rd(&(*p).state), &L), "C01.try_destruct.exit_invariant");
    kani::cover!(DISPOSE_CALLS == 1 && BUDGET < 3, "cover.try_destruct.dispose_after_interference");
    kani::cover!(DEC_STRONG_CALLS == 1 && DEFER_DESTRUCT == 1, "cover.try_destruct.redefer");
    kani::cover!(DEC_STRONG_CALLS == 1 && DEFER_DESTRUCT == 0, "cover.try_destruct.resurrected");
}}

// ---- weak half ---------------------------------------------------------------------------------

rg_harness! {
/// increment_weak(count) by a strong owner (Rc::downgrade / weak_many) or a weak owner (Weak::clone):
/// +count weak owners, never from zero, sets WEAKED first.
#[kani::unwind(7)]
fn rg_increment_weak_owner() {
    let p = any_object(); HALF = 1;
    let strong_caller: bool = kani::any();
    if strong_caller { MY.o = 1; kani::assume(L.o >= 1); } else { MY.wn = 1; kani::assume(L.wn >= 1); }
    let count: u32 = kani::any();
    kani::assume(count < 1000);
    let before = MY.wn;
    BUDGET = budget();
    (*p).increment_weak(count);
    assert!(MY.wn == before + count, "C03.incw.gains_exactly_count");
    assert!(count == 0 || word(p).weaked(), "C03.incw.sets_weaked");
    assert!(STEPS <= 1, "C03.incw.owner_needs_one_step");
    assert!(inv_h(rd(&(*p).state), &L), "C03.incw.exit_invariant");
    kani::cover!(count == 3 && BUDGET == 0, "cover.incw.interference");
    kani::cover!(strong_caller && STEPS == 1 && !State::from_raw(LIN_WORD).weaked(), "cover.incw.first_downgrade");
}}

rg_harness! {
/// increment_weak(1) from a WeakSnapshot inside its critical section (WeakSnapshot::counted): the
/// count may be zero with a deallocation pending; that attempt cannot run during the call (A-EBR).
#[kani::unwind(7)]
fn rg_increment_weak_protected() {
    let p = any_object(); HALF = 1;
    kani::assume(word(p).weaked());
    PROTECTED = true;
    BUDGET = budget();
    (*p).increment_weak(1);
    assert!(MY.wn == 1, "C03.incw.protected_gains_exactly_one");
    assert!(inv_h(rd(&(*p).state), &L), "C03.incw.protected_exit_invariant");
    kani::cover!(STEPS == 2, "cover.incw.from_zero");
}}

unsafe fn decrement_weak_contract(with_guard: bool) {
    let p = any_object(); HALF = 1;
    kani::assume(L.wn >= 1);
    MY.wn = 1; DEC_KIND = 0;
    BUDGET = budget();
    let g = s_cs();
    RcInner::decrement_weak(p, if with_guard { Some(&g) } else { None });
    assert!(STEPS == 1 && MY.wn == 0, "C03.decw.releases_exactly_one");
    let hit_zero = State::from_raw(LIN_WORD).weak() == 1;
    assert!(DEFER_DEALLOC == hit_zero as u32, "C04.decw.defers_try_dealloc_iff_hit_zero");
    assert!(DEFER_DEALLOC == 0 || DEFER_PTR == p as usize, "C04.decw.defers_on_this_object");
    assert!(MY.q == 0, "C04.decw.pending_dealloc_handed_to_ebr");
    assert!(DEALLOC_CALLS == 0 && !L.freed, "C03.decw.never_frees_directly");
    assert!(inv_h(rd(&(*p).state), &L), "C03.decw.exit_invariant");
    kani::cover!(hit_zero, "cover.decw.hit_zero");
    kani::cover!(!hit_zero && BUDGET < budget(), "cover.decw.interference");
}
rg_harness! {
/// decrement_weak by a weak owner: one step, -1; the last one defers exactly one try_dealloc.
#[kani::stub(RcInner::try_dealloc, rec_try_dealloc)]
#[kani::unwind(7)]
fn rg_decrement_weak_noguard() { decrement_weak_contract(false); }}

rg_harness! {
/// decrement_weak by a weak owner: one step, -1; the last one defers exactly one try_dealloc.
#[kani::stub(RcInner::try_dealloc, rec_try_dealloc)]
#[kani::unwind(7)]
fn rg_decrement_weak_guard() { decrement_weak_contract(true); }}

pub(crate) unsafe fn c_decrement_weak<T>(ptr: *mut RcInner<T>, guard: Option<&Guard>) {
    DEC_WEAK_CALLS += 1;
    let a = &(*ptr).state;
    env_step(a);
    let old = rd(a);
    assert!(State::from_raw(old).weak() >= 1, "C03.decw.pre_count_available");
    let new = old.wrapping_sub(WEAK_COUNT);
    wr(a, new);
    my_step(a, old, new);
    if State::from_raw(new).weak() == 0 { DEFER_DEALLOC += 1; DEFER_PTR = ptr as usize; MY.q -= 1; }
}

rg_harness! {
/// try_dealloc, run by THE pending deallocation attempt: frees only if the weak count it observes
/// is zero (nobody can reach the block then: A-EBR), otherwise consumes the token by a decrement.
#[kani::stub(RcInner::decrement_weak, c_decrement_weak)]
#[kani::stub(RcInner::dealloc, rec_dealloc)]
#[kani::unwind(7)]
fn rg_try_dealloc() {
    let p = any_object(); HALF = 1;
    kani::assume(L.q == 1);
    MY.q = 1; DEC_KIND = 1; QUIESCENT_WEAK = true;
    BUDGET = budget();
    RcInner::try_dealloc(p);
    assert!(DEALLOC_CALLS + DEC_WEAK_CALLS == 1, "C04.try_dealloc.exactly_one_outcome");
    if DEALLOC_CALLS == 1 {
        assert!(State::from_raw(LIN_WORD).weak() == 0, "C03.try_dealloc.frees_only_at_zero");
        assert!(L.freed && L.wn == 0, "C03.try_dealloc.no_weak_owner_when_freeing");
    } else {
        assert!(MY.q == 0 && !L.freed, "C04.try_dealloc.token_consumed");
    }
    kani::cover!(DEALLOC_CALLS == 1, "cover.try_dealloc.frees");
    kani::cover!(DEC_WEAK_CALLS == 1 && DEFER_DEALLOC == 1, "cover.try_dealloc.redefer");
    kani::cover!(DEC_WEAK_CALLS == 1 && DEFER_DEALLOC == 0, "cover.try_dealloc.resurrected");
}}

/// The real dealloc frees the block it is given (Kani's allocator model flags any later access).
#[kani::proof]
fn rg_dealloc_frees() {
    unsafe {
        let p = RcInner::alloc(N { v: 1 }, 1);
        RcInner::dealloc(p);
        // (reaching here without a double-free / invalid-free failure is the obligation)
        assert!(true, "C04.dealloc.frees_block");
    }
}
