// Shared by strong_h.rs and weak_h.rs (textually included): L1 callee contracts as recording
// stubs, the link-cell wrappers (Kani stubs for atomic::Atomic<T>::*), and the pointer pool.

pub(crate) const STAMP_SHIFT: u32 = usize::BITS - 4;
pub(crate) const PM: usize = !(15usize << STAMP_SHIFT);        // pointer+tag mask (timestamp removed)
pub(crate) const TAGM: usize = 7;                              // RcInner<_> is 8-aligned: 3 tag bits

pub(crate) fn word<T>(t: Raw<T>) -> usize { unsafe { core::mem::transmute_copy(&t) } }
pub(crate) fn unword<T>(w: usize) -> Raw<T> { Raw::from(w as *mut RcInner<T>) }
pub(crate) fn addr_of(w: usize) -> usize { w & PM & !TAGM }
pub(crate) fn tag_of(w: usize) -> usize { w & TAGM }
pub(crate) fn stamp_of(w: usize) -> usize { w >> STAMP_SHIFT }
pub(crate) fn same_ptr_tag(a: usize, b: usize) -> bool { a & PM == b & PM }

// ---- L1 callee contracts: what a caller may rely on is exactly what is recorded here ------------
pub(crate) static mut INC_S: u32 = 0;
pub(crate) static mut INC_S_PTR: usize = 0;
pub(crate) static mut INC_S_RESULT: bool = true;
pub(crate) static mut NOTD: u32 = 0;
pub(crate) static mut NOTD_PTR: usize = 0;
pub(crate) static mut NOTD_RESULT: bool = true;
pub(crate) static mut DEC_S: u32 = 0;
pub(crate) static mut DEC_S_COUNT: u32 = 0;
pub(crate) static mut DEC_S_PTR: usize = 0;
pub(crate) static mut DEC_S_GUARDED: bool = false;
pub(crate) static mut INC_W: u32 = 0;
pub(crate) static mut INC_W_COUNT: u32 = 0;
pub(crate) static mut INC_W_PTR: usize = 0;
pub(crate) static mut DEC_W: u32 = 0;
pub(crate) static mut DEC_W_PTR: usize = 0;
pub(crate) static mut DEC_W_GUARDED: bool = false;
pub(crate) static mut EPOCH: usize = 0;

pub(crate) fn k_increment_strong<T>(this: &RcInner<T>) -> bool {
    unsafe { INC_S += 1; INC_S_PTR = this as *const _ as usize; INC_S_RESULT }
}
pub(crate) fn k_is_not_destructed<T>(this: &RcInner<T>) -> bool {
    unsafe { NOTD += 1; NOTD_PTR = this as *const _ as usize; NOTD_RESULT }
}
pub(crate) unsafe fn k_decrement_strong<T: RcObject>(ptr: *mut RcInner<T>, count: u32, guard: Option<&Guard>) {
    DEC_S += 1; DEC_S_COUNT += count; DEC_S_PTR = ptr as usize; DEC_S_GUARDED = guard.is_some();
}
pub(crate) fn k_increment_weak<T>(this: &RcInner<T>, count: u32) {
    unsafe { INC_W += 1; INC_W_COUNT += count; INC_W_PTR = this as *const _ as usize; }
}
pub(crate) unsafe fn k_decrement_weak<T>(ptr: *mut RcInner<T>, guard: Option<&Guard>) {
    DEC_W += 1; DEC_W_PTR = ptr as usize; DEC_W_GUARDED = guard.is_some();
}
pub(crate) fn k_global_epoch() -> usize { unsafe { EPOCH } }
pub(crate) fn no_l1_calls() -> bool { unsafe { INC_S == 0 && NOTD == 0 && DEC_S == 0 && INC_W == 0 && DEC_W == 0 } }

// ---- link cell wrappers --------------------------------------------------------------------------
pub(crate) static mut CELL: usize = 0;       // address of the link under proof
pub(crate) static mut CELL_BUDGET: u32 = 0;  // environment interference budget
pub(crate) static mut WRITES: u32 = 0;       // my writes to the cell
pub(crate) static mut WRITTEN: usize = 0;    // word of my last write
pub(crate) static mut SEEN: usize = 0;       // word read by my last access (linearisation point)
pub(crate) static mut SEEN_AT_WRITE: usize = 0; // word my successful RMW replaced
pub(crate) static mut ACCESSES: u32 = 0;
pub(crate) static mut OBJS: [usize; 2] = [0; 2];

pub(crate) fn cell_budget() -> u32 { match option_env!("VERIF_BUDGET") { Some("3") => 3, Some("1") => 1, _ => 2 } }

/// null or one of the two harness objects, any tag, any timestamp
pub(crate) unsafe fn any_word() -> usize {
    let which: u8 = kani::any();
    let base = if which == 0 { 0 } else if which == 1 { OBJS[0] } else { OBJS[1] };
    let tag: usize = kani::any();
    let hi: usize = kani::any();
    kani::assume(tag <= TAGM && hi < 16);
    base | tag | (hi << STAMP_SHIFT)
}
fn bits<T: Copy>(v: &T) -> usize {
    assert!(core::mem::size_of::<T>() == core::mem::size_of::<usize>());
    unsafe { core::mem::transmute_copy(v) }
}
fn from_bits<T: Copy>(w: usize) -> T { unsafe { core::mem::transmute_copy(&w) } }
fn slot<T: Copy>(a: &Atomic<T>) -> *mut usize { a as *const Atomic<T> as *mut usize }
unsafe fn env_cell<T: Copy>(a: &Atomic<T>) {
    if slot(a) as usize != CELL { return; }
    ACCESSES += 1;
    if CELL_BUDGET > 0 && kani::any() {
        CELL_BUDGET -= 1;
        *slot(a) = any_word();
    }
}
pub(crate) fn l_load<T: Copy>(a: &Atomic<T>, _o: Ordering) -> T {
    unsafe { env_cell(a); let v = *slot(a); if slot(a) as usize == CELL { SEEN = v; } from_bits(v) }
}
pub(crate) fn l_store<T: Copy>(a: &Atomic<T>, val: T, _o: Ordering) {
    unsafe { env_cell(a); if slot(a) as usize == CELL { SEEN_AT_WRITE = *slot(a); WRITES += 1; WRITTEN = bits(&val); } *slot(a) = bits(&val); }
}
pub(crate) fn l_swap<T: Copy>(a: &Atomic<T>, val: T, _o: Ordering) -> T {
    unsafe {
        env_cell(a);
        let old = *slot(a);
        if slot(a) as usize == CELL { SEEN = old; SEEN_AT_WRITE = old; WRITES += 1; WRITTEN = bits(&val); }
        *slot(a) = bits(&val);
        from_bits(old)
    }
}
pub(crate) fn l_cas<T: Copy>(a: &Atomic<T>, cur: T, new: T, _s: Ordering, _f: Ordering) -> Result<T, T> {
    unsafe {
        env_cell(a);
        let old = *slot(a);
        if slot(a) as usize == CELL { SEEN = old; }
        if old == bits(&cur) {
            if slot(a) as usize == CELL { SEEN_AT_WRITE = old; WRITES += 1; WRITTEN = bits(&new); }
            *slot(a) = bits(&new);
            Ok(from_bits(old))
        } else { Err(from_bits(old)) }
    }
}
/// compare_exchange_weak: as above, but may fail spuriously (returning the current value).
pub(crate) fn l_cas_weak<T: Copy>(a: &Atomic<T>, cur: T, new: T, s: Ordering, f: Ordering) -> Result<T, T> {
    unsafe {
        if slot(a) as usize == CELL && SPURIOUS_BUDGET > 0 && kani::any() {
            SPURIOUS_BUDGET -= 1;
            env_cell(a);
            let old = *slot(a);
            SEEN = old;
            return Err(from_bits(old));
        }
    }
    l_cas(a, cur, new, s, f)
}
pub(crate) static mut SPURIOUS_BUDGET: u32 = 0;
