// Child module of crate::ebr_impl::epoch.  C14 (Epoch arithmetic) and the pure part of C13.
// Spec, from the property: an Epoch is a pair (value: 63-bit counter, pinned: bool); `successor`
// adds one to the value (mod 2^63) and keeps the flag; `wrapping_sub` is the signed distance of the
// values in the 63-bit ring.  Written over mathematical (i128) integers, independent of the encoding
// tricks in the code.
#![allow(dead_code, unused_imports)]
use super::*;

pub(crate) fn data_of(e: Epoch) -> usize { e.data }
pub(crate) fn mk(data: usize) -> Epoch { Epoch { data } }
pub(crate) const RING: i128 = 1i128 << 63;
pub(crate) fn val(e: Epoch) -> i128 { (e.data >> 1) as i128 }
pub(crate) fn pin(e: Epoch) -> bool { e.data & 1 == 1 }
/// signed distance of a - b in the ring Z / 2^63, in [-2^62, 2^62)
pub(crate) fn ring_dist(a: i128, b: i128) -> i128 {
    let d = (a - b).rem_euclid(RING);
    if d >= RING / 2 { d - RING } else { d }
}
pub(crate) fn post_starting(r: Epoch) -> bool { val(r) == 0 && !pin(r) }
pub(crate) fn post_wrapping_sub(a: Epoch, b: Epoch, r: isize) -> bool { r as i128 == ring_dist(val(a), val(b)) }
pub(crate) fn post_is_pinned(a: Epoch, r: bool) -> bool { r == pin(a) }
pub(crate) fn post_pinned(a: Epoch, r: Epoch) -> bool { val(r) == val(a) && pin(r) }
pub(crate) fn post_unpinned(a: Epoch, r: Epoch) -> bool { val(r) == val(a) && !pin(r) }
pub(crate) fn post_successor(a: Epoch, r: Epoch) -> bool { val(r) == (val(a) + 1).rem_euclid(RING) && pin(r) == pin(a) }
pub(crate) fn post_value(a: Epoch, r: usize) -> bool { r as i128 == val(a) }

impl kani::Arbitrary for Epoch { fn any() -> Self { Epoch { data: kani::any() } } }

#[kani::proof_for_contract(Epoch::starting)]     fn c14_epoch_starting() { let _ = Epoch::starting(); }
#[kani::proof_for_contract(Epoch::wrapping_sub)] fn c14_epoch_wrapping_sub() { let a: Epoch = kani::any(); let _ = a.wrapping_sub(kani::any()); }
#[kani::proof_for_contract(Epoch::is_pinned)]    fn c14_epoch_is_pinned() { let a: Epoch = kani::any(); let _ = a.is_pinned(); }
#[kani::proof_for_contract(Epoch::pinned)]       fn c14_epoch_pinned() { let a: Epoch = kani::any(); let _ = a.pinned(); }
#[kani::proof_for_contract(Epoch::unpinned)]     fn c14_epoch_unpinned() { let a: Epoch = kani::any(); let _ = a.unpinned(); }
#[kani::proof_for_contract(Epoch::successor)]    fn c14_epoch_successor() { let a: Epoch = kani::any(); let _ = a.successor(); }
#[kani::proof_for_contract(Epoch::value)]        fn c14_epoch_value() { let a: Epoch = kani::any(); let _ = a.value(); }

/// Replayable twin of all seven contracts + the clock lemmas the property states.
#[kani::proof]
fn c14_epoch_twin() {
    let (a, b): (Epoch, Epoch) = (kani::any(), kani::any());
    assert!(post_starting(Epoch::starting()), "C14.epoch.starting.post");
    assert!(post_wrapping_sub(a, b, a.wrapping_sub(b)), "C14.epoch.wrapping_sub.post");
    assert!(post_is_pinned(a, a.is_pinned()), "C14.epoch.is_pinned.post");
    assert!(post_pinned(a, a.pinned()), "C14.epoch.pinned.post");
    assert!(post_unpinned(a, a.unpinned()), "C14.epoch.unpinned.post");
    assert!(post_successor(a, a.successor()), "C14.epoch.successor.post");
    assert!(post_value(a, a.value()), "C14.epoch.value.post");
    // single step: the successor is exactly one ahead, and never equal to the epoch itself
    assert!(a.successor().wrapping_sub(a) == 1 && a.successor().unpinned() != a.unpinned(), "C14.clock.successor_is_single_step_forward");
    // equality of unpinned epochs is equality of values (what try_advance compares)
    assert!((a.unpinned() == b.unpinned()) == (val(a) == val(b)), "C14.clock.unpinned_eq_is_value_eq");
    // pin()'s validation compares .value(): equal values <=> same epoch
    assert!((a.pinned().value() == b.value()) == (val(a) == val(b)), "C14.clock.value_eq_is_epoch_eq");
    // AtomicEpoch is a faithful cell
    let cell = AtomicEpoch::new(a);
    assert!(cell.load(Ordering::Relaxed) == a, "C14.atomic_epoch.new_load");
    cell.store(b, Ordering::Relaxed);
    assert!(cell.load(Ordering::Relaxed) == b, "C14.atomic_epoch.store_load");
    let r = cell.compare_exchange(a, a.successor(), Ordering::SeqCst, Ordering::SeqCst);
    assert!(if a == b { r == Ok(b) && cell.load(Ordering::Relaxed) == a.successor() } else { r == Err(b) && cell.load(Ordering::Relaxed) == b }, "C14.atomic_epoch.compare_exchange");
    kani::cover!(val(a) == RING - 1, "cover.epoch.wrap");
}

/// C13 (pure part): a bag sealed at epoch s is reported expired at global epoch g exactly when the
/// clock made at least 3 single steps since sealing (true age a < 2^62).
#[kani::proof]
fn c13_expiry_arith() {
    let s: Epoch = kani::any();
    let age: usize = kani::any();
    kani::assume(age < (1usize << 62));
    // g = s advanced `age` times (successor^age): value + age mod 2^63, flags irrelevant
    let g = Epoch { data: (s.data & !1).wrapping_add(age << 1) | (kani::any::<usize>() & 1) };
    assert!(val(g) == (val(s) + age as i128).rem_euclid(RING), "C13.expiry.model_of_age");
    assert!((g.wrapping_sub(s) >= 3) == (age >= 3), "C13.expiry.wrapping_sub_ge_3_iff_three_advances");
    kani::cover!(age == 2, "cover.expiry.two");
    kani::cover!(age == 3 && val(s) == RING - 2, "cover.expiry.three_across_wrap");
}
