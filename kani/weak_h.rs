// Child module of crate::weak.  L2 contracts over the L1 callee contracts:
//   C09  AtomicWeak cell contracts (per operation, under interference on the link word)
//   C03/C04 weak-owner ledger of Weak / WeakSnapshot / AtomicWeak
//   C05  upgrade contracts at the API level
//   C11  tag accessors of Weak / WeakSnapshot
#![allow(dead_code, unused_imports, static_mut_refs, unused_variables, unused_mut)]
use super::*;
include!("common_l2.rs");

pub(crate) struct N { pub v: u8 }
unsafe impl RcObject for N { fn pop_edges(&mut self, _out: &mut Vec<Rc<Self>>) {} }

pub(crate) unsafe fn setup() -> (*mut RcInner<N>, *mut RcInner<N>) {
    let a = RcInner::alloc(N { v: 1 }, 5);
    let b = RcInner::alloc(N { v: 2 }, 5);
    OBJS = [a as usize, b as usize];
    kani::assume(OBJS[0] & !PM == 0 && OBJS[1] & !PM == 0);   // A-ADDR
    EPOCH = kani::any();
    (a, b)
}
fn mk_cell(init: usize) -> AtomicWeak<N> { AtomicWeak { link: Atomic::new(unword(init)) } }
fn guard() -> Guard { unsafe { crate::ebr_impl::unprotected() } }
fn rc_word(r: &Rc<N>) -> usize { unsafe { core::mem::transmute_copy(r) } }
fn snap_word(s: &Snapshot<'_, N>) -> usize { word(s.ptr) }

macro_rules! l2_harness {
    ($(#[$m:meta])* fn $name:ident() $body:block) => {
        #[kani::proof]
        #[kani::stub(atomic::Atomic::load, l_load)]
        #[kani::stub(atomic::Atomic::store, l_store)]
        #[kani::stub(atomic::Atomic::swap, l_swap)]
        #[kani::stub(atomic::Atomic::compare_exchange, l_cas)]
        #[kani::stub(atomic::Atomic::compare_exchange_weak, l_cas_weak)]
        #[kani::stub(crate::ebr_impl::global_epoch, k_global_epoch)]
        #[kani::stub(RcInner::increment_strong, k_increment_strong)]
        #[kani::stub(RcInner::is_not_destructed, k_is_not_destructed)]
        #[kani::stub(RcInner::decrement_strong, k_decrement_strong)]
        #[kani::stub(RcInner::increment_weak, k_increment_weak)]
        #[kani::stub(RcInner::decrement_weak, k_decrement_weak)]
        #[kani::stub(crate::ebr_impl::internal::Local::unpin, crate::ebr_impl::internal::verif_cut::s_unpin_unreachable)]
        $(#[$m])*
        fn $name() { #[allow(unused_unsafe)] unsafe { $body } }
    };
}

// ================================================================================================
// C09 — AtomicWeak cell contracts
// ================================================================================================
unsafe fn cas_contract(weak: bool) {
    setup();
    let g = guard();
    let cell = mk_cell(any_word());
    CELL = &cell.link as *const _ as usize;
    let exp_w = any_word();      // however obtained: loaded from this cell, downgraded from a Snapshot
    let des_w = any_word();      // loaded from an AtomicRc at another epoch, taken from a Weak ...
    let expected = WeakSnapshot::from_raw(unword(exp_w), &g);
    let desired: Weak<N> = Weak::from_raw(unword(des_w));
    CELL_BUDGET = cell_budget();
    SPURIOUS_BUDGET = if weak { 1 } else { 0 };
    let r = if weak { cell.compare_exchange_weak(expected, desired, Ordering::SeqCst, Ordering::SeqCst, &g) }
            else { cell.compare_exchange(expected, desired, Ordering::SeqCst, Ordering::SeqCst, &g) };
    match r {
        Ok(prev) => {
            assert!(WRITES == 1, "C09.cas.ok_exactly_one_write");
            assert!(same_ptr_tag(SEEN_AT_WRITE, exp_w), "C09.cas.ok_only_if_cell_ptr_eq_expected");
            assert!(same_ptr_tag(word(prev.ptr), SEEN_AT_WRITE), "C09.cas.ok_returns_previous_content");
            assert!(same_ptr_tag(WRITTEN, des_w), "C09.cas.ok_installs_desired_tag_exact");
            core::mem::forget(prev);
        }
        Err(e) => {
            assert!(WRITES == 0, "C09.cas.err_no_write");
            assert!(word(e.desired.ptr) == des_w, "C09.cas.err_returns_desired_untouched");
            assert!(word(e.current.ptr) == SEEN, "C09.cas.err_current_is_value_read_from_cell");
            if !weak { assert!(!same_ptr_tag(SEEN, exp_w), "C09.cas.err_only_if_not_ptr_eq_epoch_bits_invisible"); }
            core::mem::forget(e.desired);
        }
    }
    assert!(no_l1_calls(), "C09.cas.weak_counts_transferred_without_change");
    kani::cover!(WRITES == 1 && CELL_BUDGET == 0, "cover.wcas.success_after_interference");
    kani::cover!(WRITES == 1 && stamp_of(exp_w) != stamp_of(SEEN_AT_WRITE), "cover.wcas.success_with_other_epoch_bits");
    kani::cover!(WRITES == 0, "cover.wcas.failure");
    core::mem::forget(cell);
}
l2_harness! {
#[kani::unwind(7)]
fn c09_compare_exchange() { cas_contract(false); }}
l2_harness! {
#[kani::unwind(8)]
fn c09_compare_exchange_weak() { cas_contract(true); }}

l2_harness! {
#[kani::unwind(7)]
fn c09_compare_exchange_tag() {
    setup();
    let g = guard();
    let cell = mk_cell(any_word());
    CELL = &cell.link as *const _ as usize;
    let exp_w = any_word();
    let tag: usize = kani::any();
    let expected = WeakSnapshot::from_raw(unword(exp_w), &g);
    CELL_BUDGET = cell_budget();
    let want = (exp_w & !TAGM) | (tag & TAGM);
    match cell.compare_exchange_tag(expected, tag, Ordering::SeqCst, Ordering::SeqCst, &g) {
        Ok(cur) => {
            assert!(WRITES == 1, "C09.cas_tag.ok_exactly_one_write");
            assert!(same_ptr_tag(SEEN_AT_WRITE, exp_w), "C09.cas_tag.ok_only_if_cell_ptr_eq_expected");
            assert!(same_ptr_tag(WRITTEN, want), "C09.cas_tag.ok_writes_pointer_with_truncated_tag");
            assert!(word(cur.ptr) == SEEN_AT_WRITE, "C09.cas_tag.ok_returns_previous_content");
        }
        Err(e) => {
            assert!(WRITES == 0, "C09.cas_tag.err_no_write");
            assert!(!same_ptr_tag(SEEN, exp_w), "C09.cas_tag.err_only_if_not_ptr_eq");
            assert!(word(e.current.ptr) == SEEN, "C09.cas_tag.err_current_is_value_read");
            assert!(same_ptr_tag(word(e.desired.ptr), want), "C09.cas_tag.err_desired_is_expected_with_tag");
        }
    }
    assert!(no_l1_calls(), "C09.cas_tag.no_count_change");
    kani::cover!(WRITES == 1 && stamp_of(exp_w) != stamp_of(SEEN_AT_WRITE), "cover.wcas_tag.other_epoch_bits");
    kani::cover!(WRITES == 0, "cover.wcas_tag.failure");
    core::mem::forget(cell);
}}

l2_harness! {
fn c09_load_store_swap() {
    setup();
    let g = guard();
    let cell = mk_cell(any_word());
    CELL = &cell.link as *const _ as usize;
    CELL_BUDGET = cell_budget();
    let which: u8 = kani::any();
    let new_w = any_word();
    if which == 0 {
        let s = cell.load(Ordering::SeqCst, &g);
        assert!(word(s.ptr) == SEEN && ACCESSES == 1 && WRITES == 0, "C09.load.returns_value_read_by_single_access");
        assert!(no_l1_calls(), "C09.load.no_count_change");
    } else if which == 1 {
        cell.store(Weak::from_raw(unword(new_w)), Ordering::SeqCst, &g);
        assert!(WRITES == 1 && ACCESSES == 1 && same_ptr_tag(WRITTEN, new_w), "C09.store.single_rmw_installs_ptr");
        let old = SEEN_AT_WRITE;
        if addr_of(old) != 0 { assert!(DEC_W == 1 && DEC_W_PTR == addr_of(old) && DEC_W_GUARDED, "C09.store.releases_exactly_old_content"); }
        else { assert!(DEC_W == 0, "C09.store.null_old_content_releases_nothing"); }
        assert!(INC_W == 0 && INC_S == 0 && DEC_S == 0, "C09.store.new_pointer_moves_without_count_change");
    } else {
        let prev = cell.swap(Weak::from_raw(unword(new_w)), Ordering::SeqCst);
        assert!(WRITES == 1 && ACCESSES == 1 && same_ptr_tag(WRITTEN, new_w), "C09.swap.single_rmw_installs_new");
        assert!(word(prev.ptr) == SEEN_AT_WRITE, "C09.swap.returns_previous_content");
        assert!(no_l1_calls(), "C09.swap.weak_share_moves_without_count_change");
        core::mem::forget(prev);
    }
    kani::cover!(which == 1 && addr_of(SEEN_AT_WRITE) != 0, "cover.wstore.nonnull_old");
    core::mem::forget(cell);
}}

l2_harness! {
fn c09_drop_from_get_mut() {
    setup();
    let w = any_word();
    let cell = mk_cell(w);
    drop(cell);
    if addr_of(w) != 0 { assert!(DEC_W == 1 && DEC_W_PTR == addr_of(w) && !DEC_W_GUARDED, "C04.atomicweak_drop.releases_exactly_its_share"); }
    else { assert!(DEC_W == 0, "C04.atomicweak_drop.null_releases_nothing"); }
    assert!(INC_W == 0 && INC_S == 0 && DEC_S == 0, "C04.atomicweak_drop.nothing_else");
    DEC_W = 0;
    let mut c2: AtomicWeak<N> = AtomicWeak::from(Weak::from_raw(unword(w)));
    assert!(word(*c2.link.get_mut()) == w && no_l1_calls(), "C09.from_weak.moves_share");
    assert!(word(c2.get_mut().ptr) == w, "C09.get_mut.is_the_stored_weak");
    core::mem::forget(c2);
    let wk: Weak<N> = Weak::from_raw(unword(w));
    let mut c3: AtomicWeak<N> = AtomicWeak::from(&wk);
    assert!(word(*c3.link.get_mut()) == w && INC_W == (addr_of(w) != 0) as u32 && INC_W_COUNT == INC_W, "C09.from_ref.one_weak_increment");
    core::mem::forget(c3); core::mem::forget(wk);
    let mut n: AtomicWeak<N> = AtomicWeak::null();
    let mut d: AtomicWeak<N> = AtomicWeak::default();
    assert!(word(*n.link.get_mut()) == 0 && word(*d.link.get_mut()) == 0, "C09.null.is_null");
    core::mem::forget(n); core::mem::forget(d);
}}

// ================================================================================================
// C03 / C04 / C05 — weak-owner ledger and upgrade at the API level
// ================================================================================================
l2_harness! {
fn l2_weak_ledger() {
    setup();
    let g = guard();
    let w = any_word();
    let nonnull = addr_of(w) != 0;
    let wk: Weak<N> = Weak::from_raw(unword(w));
    // clone: exactly one increment_weak(1) iff non-null
    let c = wk.clone();
    assert!(word(c.ptr) == w, "C03.weak_clone.same_pointer");
    assert!(INC_W == nonnull as u32 && INC_W_COUNT == nonnull as u32 && (!nonnull || INC_W_PTR == addr_of(w)), "C03.weak_clone.exactly_one_weak_share");
    assert!(INC_S == 0 && DEC_S == 0 && DEC_W == 0, "C03.weak_clone.nothing_else");
    INC_W = 0; INC_W_COUNT = 0;
    core::mem::forget(c);
    // snapshot: no count change; WeakSnapshot::counted: exactly one increment_weak(1)
    let ws = wk.snapshot(&g);
    assert!(word(ws.ptr) == w && no_l1_calls(), "C03.weak_snapshot.no_count_change");
    let c2 = ws.counted();
    assert!(word(c2.ptr) == w && INC_W == nonnull as u32 && INC_W_COUNT == nonnull as u32, "C03.wsnap_counted.exactly_one_weak_share");
    INC_W = 0; INC_W_COUNT = 0;
    core::mem::forget(c2);
    let c3: Weak<N> = Weak::from(ws);
    assert!(word(c3.ptr) == w && INC_W == nonnull as u32, "C03.weak_from_wsnap.exactly_one_weak_share");
    INC_W = 0; INC_W_COUNT = 0;
    core::mem::forget(c3);
    let sn: Snapshot<'_, N> = Snapshot::from_raw(unword(w), &g);
    let c4: Weak<N> = Weak::from(sn);
    assert!(word(c4.ptr) == w && INC_W == nonnull as u32 && INC_S == 0, "C03.weak_from_snapshot.exactly_one_weak_share");
    INC_W = 0; INC_W_COUNT = 0;
    core::mem::forget(c4);
    let ws2: WeakSnapshot<'_, N> = WeakSnapshot::from(sn);
    assert!(word(ws2.ptr) == w && no_l1_calls(), "C03.wsnap_from_snapshot.no_count_change");
    // into_raw: no count change
    let raw = wk.into_raw();
    assert!(word(raw) == w && no_l1_calls(), "C03.weak_into_raw.no_count_change");
    // drop: exactly one decrement_weak (no guard) iff non-null
    let wk: Weak<N> = Weak::from_raw(raw);
    drop(wk);
    assert!(DEC_W == nonnull as u32 && (!nonnull || (DEC_W_PTR == addr_of(w) && !DEC_W_GUARDED)), "C04.weak_drop.releases_exactly_one_share");
    assert!(INC_W == 0 && INC_S == 0 && DEC_S == 0, "C04.weak_drop.nothing_else");
    kani::cover!(nonnull && tag_of(w) == 6, "cover.weak_ledger.tagged");
    kani::cover!(!nonnull && tag_of(w) != 0, "cover.weak_ledger.tagged_null");
}}

l2_harness! {
/// Weak::upgrade: null in => null out, no count access; otherwise exactly one increment_strong and
/// Some(rc to the same pointer+tag) iff it reported success.
fn c05_weak_upgrade() {
    setup();
    let w = any_word();
    let nonnull = addr_of(w) != 0;
    INC_S_RESULT = kani::any();
    let wk: Weak<N> = Weak::from_raw(unword(w));
    let up = wk.upgrade();
    if !nonnull {
        assert!(no_l1_calls(), "C05.upgrade.null_touches_no_count");
        assert!(matches!(&up, Some(r) if r.is_null() && rc_word(r) == w), "C05.upgrade.null_upgrades_to_null");
    } else {
        assert!(INC_S == 1 && INC_S_PTR == addr_of(w), "C05.upgrade.exactly_one_increment_attempt");
        assert!(up.is_some() == INC_S_RESULT, "C05.upgrade.some_iff_increment_succeeded");
        if let Some(r) = &up { assert!(rc_word(r) == w, "C05.upgrade.result_is_same_pointer_and_tag"); }
        assert!(DEC_S == 0 && INC_W == 0 && DEC_W == 0 && NOTD == 0, "C05.upgrade.nothing_else");
    }
    kani::cover!(nonnull && up.is_none(), "cover.upgrade.none");
    kani::cover!(nonnull && up.is_some() && tag_of(w) == 1, "cover.upgrade.some_tagged");
    core::mem::forget(up); core::mem::forget(wk);
}}

l2_harness! {
/// WeakSnapshot::upgrade: null in => null Snapshot, no count access; otherwise exactly one
/// is_not_destructed and Some(snapshot of the same word) iff it answered true; owns nothing.
fn c05_wsnap_upgrade() {
    setup();
    let g = guard();
    let w = any_word();
    let nonnull = addr_of(w) != 0;
    NOTD_RESULT = kani::any();
    let ws: WeakSnapshot<'_, N> = WeakSnapshot::from_raw(unword(w), &g);
    let up = ws.upgrade();
    if !nonnull {
        assert!(no_l1_calls(), "C05.wsnap_upgrade.null_touches_no_count");
        assert!(matches!(&up, Some(s) if s.is_null() && snap_word(s) == w), "C05.wsnap_upgrade.null_upgrades_to_null");
    } else {
        assert!(NOTD == 1 && NOTD_PTR == addr_of(w), "C05.wsnap_upgrade.exactly_one_check");
        assert!(up.is_some() == NOTD_RESULT, "C05.wsnap_upgrade.some_iff_not_destructed");
        if let Some(s) = &up { assert!(snap_word(s) == w, "C05.wsnap_upgrade.result_is_same_word"); }
        assert!(INC_S == 0 && DEC_S == 0 && INC_W == 0 && DEC_W == 0, "C05.wsnap_upgrade.owns_nothing");
    }
    kani::cover!(nonnull && up.is_none(), "cover.wsnap_upgrade.none");
}}

// ================================================================================================
// C11 — tag accessors of Weak / WeakSnapshot (full usize domain; nothing is dereferenced)
// ================================================================================================
l2_harness! {
fn c11_weak_tags() {
    let w: usize = kani::any();
    let t: usize = kani::any();
    let u: usize = kani::any();
    let g = guard();
    let wk: Weak<N> = Weak::from_raw(unword(w));
    assert!(wk.tag() == tag_of(w) && wk.is_null() == (addr_of(w) == 0), "C11.weak.tag_is_null");
    let other: Weak<N> = Weak::from_raw(unword(u));
    assert!(wk.ptr_eq(&other) == same_ptr_tag(w, u), "C11.weak.ptr_eq_ignores_timestamp");
    core::mem::forget(other);
    let w2 = wk.with_tag(t);
    assert!(word(w2.ptr) == (w & !TAGM) | (t & TAGM) && w2.tag() == t & TAGM, "C11.weak.with_tag_truncates_keeps_address_and_timestamp");
    core::mem::forget(w2);
    let s: WeakSnapshot<'_, N> = WeakSnapshot::from_raw(unword(w), &g);
    assert!(s.tag() == tag_of(w) && s.is_null() == (addr_of(w) == 0), "C11.wsnap.tag_is_null");
    assert!(s.ptr_eq(WeakSnapshot::from_raw(unword(u), &g)) == same_ptr_tag(w, u), "C11.wsnap.ptr_eq_ignores_timestamp");
    assert!(word(s.with_tag(t).ptr) == (w & !TAGM) | (t & TAGM), "C11.wsnap.with_tag");
    assert!(WeakSnapshot::<N>::null().is_null() && WeakSnapshot::<N>::default().is_null() && Weak::<N>::null().is_null(), "C11.weak.null");
    assert!(no_l1_calls(), "C11.weak_accessors.no_count_change");
}}
