// C12 — count-word fields are independent; the modular epoch test only errs to "too recent".
// Child module of `crate::utils` (appended by the instrumenter): the real private `State`,
// `Modular` and the layout constants are in scope through `super::*`.
//
// Contracts on the State/Modular methods are the in-place `kani::requires/ensures` attributes of
// kani/contracts.py (groups "state", "modular"); this file holds the spec helpers they refer to,
// the `proof_for_contract` harnesses and the lemmas over the contracts.
#![allow(dead_code, unused_imports)]
use super::*;

pub(super) const F_EPOCH: u8 = 0;
pub(super) const F_STRONG: u8 = 1;
pub(super) const F_WEAK: u8 = 2;
pub(super) const F_DESTRUCTED: u8 = 3;
pub(super) const F_WEAKED: u8 = 4;

/// Largest value of the strong / weak field (from the crate's own masks; layout independent).
pub(super) fn max_strong() -> u64 { STRONG / COUNT }
pub(super) fn max_weak() -> u64 { WEAK / WEAK_COUNT }

/// Frame: every field except `f` is the same in `a` and `b`.
pub(super) fn same_but(a: State, b: State, f: u8) -> bool {
    (f == F_EPOCH || a.epoch() == b.epoch())
        && (f == F_STRONG || a.strong() == b.strong())
        && (f == F_WEAK || a.weak() == b.weak())
        && (f == F_DESTRUCTED || a.destructed() == b.destructed())
        && (f == F_WEAKED || a.weaked() == b.weaked())
}

/// `max` values for which `max + 1`, `val - (max + 1)` cannot overflow (epochs are < 2^62).
pub(super) fn max_ok(max: isize) -> bool { max >= 0 && max <= (1isize << 62) }

/// Distance of `x` behind `max + 1` in the 2^WIDTH window (mathematical, Euclidean remainder).
pub(super) fn dist<const WIDTH: u32>(max: isize, x: isize) -> isize {
    (max + 1 - x).rem_euclid(1isize << WIDTH)
}

impl kani::Arbitrary for State {
    fn any() -> Self { State::from_raw(kani::any()) }
}
impl<const W: u32> kani::Arbitrary for Modular<W> {
    fn any() -> Self { Modular::new(kani::any()) }
}

// ---- the contract text (shared by the in-place attributes and the replayable twins) --------------
pub(super) fn post_from_raw(inner: u64, r: State) -> bool { r.as_raw() == inner }
pub(super) fn post_as_raw(s: State, r: u64) -> bool { r == s.inner && State::from_raw(r).as_raw() == r }
pub(super) fn post_epoch(_s: State, r: u32) -> bool { (r as u64) < (1u64 << EPOCH_WIDTH) }
pub(super) fn post_strong(_s: State, r: u32) -> bool { (r as u64) <= max_strong() }
pub(super) fn post_weak(_s: State, r: u32) -> bool { (r as u64) <= max_weak() }
pub(super) fn post_destructed(s: State, r: bool) -> bool { r == s.destructed() }
pub(super) fn post_with_epoch(s: State, epoch: usize, r: State) -> bool {
    r.epoch() as u64 == (epoch as u64) % (1u64 << EPOCH_WIDTH) && same_but(s, r, F_EPOCH)
}
pub(super) fn pre_add_strong(s: State, val: u32) -> bool { s.strong() as u64 + val as u64 <= max_strong() }
pub(super) fn post_add_strong(s: State, val: u32, r: State) -> bool {
    r.strong() as u64 == s.strong() as u64 + val as u64 && same_but(s, r, F_STRONG)
}
pub(super) fn pre_sub_strong(s: State, val: u32) -> bool { s.strong() >= val }
pub(super) fn post_sub_strong(s: State, val: u32, r: State) -> bool {
    r.strong() as u64 + val as u64 == s.strong() as u64 && same_but(s, r, F_STRONG)
}
pub(super) fn pre_add_weak(s: State, val: u32) -> bool { s.weak() as u64 + val as u64 <= max_weak() }
pub(super) fn post_add_weak(s: State, val: u32, r: State) -> bool {
    r.weak() as u64 == s.weak() as u64 + val as u64 && same_but(s, r, F_WEAK)
}
pub(super) fn post_with_destructed(s: State, dest: bool, r: State) -> bool {
    r.destructed() == dest && same_but(s, r, F_DESTRUCTED)
}
pub(super) fn post_with_weaked(s: State, weaked: bool, r: State) -> bool {
    r.weaked() == weaked && same_but(s, r, F_WEAKED)
}

// ---- proofs: all 2^64 words x all arguments, loop-free => complete ------------------------------
// `$name` proves the in-place contract (Kani function-contract route, reusable by stub_verified);
// `$twin` states the same pre/post as plain assume/assert so that a counterexample replays natively.
macro_rules! contract_proof {
    ($name:ident, $f:ident ; $($arg:ident : $t:ty),*) => {
        #[kani::proof_for_contract(State::$f)]
        fn $name() {
            let s: State = kani::any();
            $( let $arg: $t = kani::any(); )*
            let _ = s.$f($($arg),*);
        }
    };
}
macro_rules! twin {
    ($twin:ident, $msg:expr, |$s:ident $(, $arg:ident : $t:ty)*| $pre:expr, $call:expr, |$r:ident| $post:expr) => {
        #[kani::proof]
        fn $twin() {
            let $s: State = kani::any();
            $( let $arg: $t = kani::any(); )*
            kani::assume($pre);
            let $r = $call;
            assert!($post, $msg);
        }
    };
}
#[kani::proof_for_contract(State::from_raw)]
fn c12_state_from_raw() { let _ = State::from_raw(kani::any()); }
#[kani::proof]
fn c12_state_from_raw_x() { let w: u64 = kani::any(); assert!(post_from_raw(w, State::from_raw(w)), "C12.state.from_raw.post"); }
contract_proof!(c12_state_epoch, epoch;);
contract_proof!(c12_state_strong, strong;);
contract_proof!(c12_state_weak, weak;);
contract_proof!(c12_state_destructed, destructed;);
contract_proof!(c12_state_with_epoch, with_epoch; e: usize);
contract_proof!(c12_state_add_strong, add_strong; v: u32);
contract_proof!(c12_state_sub_strong, sub_strong; v: u32);
contract_proof!(c12_state_add_weak, add_weak; v: u32);
contract_proof!(c12_state_with_destructed, with_destructed; b: bool);
contract_proof!(c12_state_with_weaked, with_weaked; b: bool);
contract_proof!(c12_state_as_raw, as_raw;);
twin!(c12_state_epoch_x, "C12.state.epoch.post", |s| true, s.epoch(), |r| post_epoch(s, r));
twin!(c12_state_strong_x, "C12.state.strong.post", |s| true, s.strong(), |r| post_strong(s, r));
twin!(c12_state_weak_x, "C12.state.weak.post", |s| true, s.weak(), |r| post_weak(s, r));
twin!(c12_state_destructed_x, "C12.state.destructed.post", |s| true, s.destructed(), |r| post_destructed(s, r));
twin!(c12_state_with_epoch_x, "C12.state.with_epoch.post", |s, e: usize| true, s.with_epoch(e), |r| post_with_epoch(s, e, r));
twin!(c12_state_add_strong_x, "C12.state.add_strong.post", |s, v: u32| pre_add_strong(s, v), s.add_strong(v), |r| post_add_strong(s, v, r));
twin!(c12_state_sub_strong_x, "C12.state.sub_strong.post", |s, v: u32| pre_sub_strong(s, v), s.sub_strong(v), |r| post_sub_strong(s, v, r));
twin!(c12_state_add_weak_x, "C12.state.add_weak.post", |s, v: u32| pre_add_weak(s, v), s.add_weak(v), |r| post_add_weak(s, v, r));
twin!(c12_state_with_destructed_x, "C12.state.with_destructed.post", |s, b: bool| true, s.with_destructed(b), |r| post_with_destructed(s, b, r));
twin!(c12_state_with_weaked_x, "C12.state.with_weaked.post", |s, b: bool| true, s.with_weaked(b), |r| post_with_weaked(s, b, r));
twin!(c12_state_as_raw_x, "C12.state.as_raw.post", |s| true, s.as_raw(), |r| post_as_raw(s, r));

/// The five getters partition the word: equal fields => equal words (so "another field" in the
/// frame clauses really covers every bit), and `weaked(&self)` agrees with its by-value use.
#[kani::proof]
fn c12_state_fields_partition() {
    let a: State = kani::any();
    let b: State = kani::any();
    if a.epoch() == b.epoch() && a.strong() == b.strong() && a.weak() == b.weak()
        && a.destructed() == b.destructed() && a.weaked() == b.weaked()
    {
        assert!(a.as_raw() == b.as_raw(), "C12.state.fields_partition");
    }
    // `weaked(&self)` is the one getter taking a reference: same answer through a copy
    let c = a;
    assert!((&c).weaked() == a.weaked(), "C12.state.weaked.pure");
    kani::cover!(a.as_raw() != b.as_raw() && a.strong() == b.strong(), "cover.partition.differ_elsewhere");
}

/// The raw word arithmetic the count protocol performs with fetch_add / fetch_sub / alloc is the
/// field arithmetic of the contracts (no carry into a neighbouring field for in-range values).
#[kani::proof]
fn c12_state_raw_arith() {
    let s: State = kani::any();
    let w = s.as_raw();
    // fetch_add(COUNT)
    if (s.strong() as u64) < max_strong() {
        let r = State::from_raw(w.wrapping_add(COUNT));
        assert!(r.strong() == s.strong() + 1 && same_but(s, r, F_STRONG), "C12.raw.add_count");
    }
    // fetch_add(count * WEAK_COUNT)
    let c: u32 = kani::any();
    if s.weak() as u64 + c as u64 <= max_weak() {
        let r = State::from_raw(w.wrapping_add(c as u64 * WEAK_COUNT));
        assert!(r.weak() as u64 == s.weak() as u64 + c as u64 && same_but(s, r, F_WEAK), "C12.raw.add_weak_count");
    }
    // fetch_sub(WEAK_COUNT)
    if s.weak() >= 1 {
        let r = State::from_raw(w.wrapping_sub(WEAK_COUNT));
        assert!(r.weak() == s.weak() - 1 && same_but(s, r, F_WEAK), "C12.raw.sub_weak_count");
    }
    // RcInner::alloc's initial word
    let init: u32 = kani::any();
    if init as u64 <= max_strong() {
        let r = State::from_raw((init as u64) * COUNT + WEAK_COUNT);
        assert!(r.strong() == init && r.weak() == 1 && !r.destructed() && !r.weaked() && r.epoch() == 0,
            "C12.raw.alloc_word");
    }
    kani::cover!(s.weak() >= 1 && s.destructed(), "cover.raw.some");
}

// ---- Modular<4> ---------------------------------------------------------------------------------
pub(super) fn pre_trans<const W: u32>(m: &Modular<W>, val: isize) -> bool { max_ok(m.max) && val <= m.max && val >= -(1 << 40) }
pub(super) fn post_trans<const W: u32>(m: &Modular<W>, val: isize, r: isize) -> bool {
    r <= 0 && r > -(1isize << W) && -r == dist::<W>(m.max, val)
}
pub(super) fn pre_inver<const W: u32>(m: &Modular<W>, val: isize) -> bool { max_ok(m.max) && val <= 0 && val > -(1isize << W) }
pub(super) fn post_inver<const W: u32>(m: &Modular<W>, val: isize, r: isize) -> bool {
    r < (1isize << W) && r > -(1isize << W) && (r - (val + m.max + 1)).rem_euclid(1isize << W) == 0
}
pub(super) fn pre_le<const W: u32>(m: &Modular<W>, a: isize, b: isize) -> bool {
    max_ok(m.max) && a <= m.max && b <= m.max && a >= -(1 << 40) && b >= -(1 << 40)
}
pub(super) fn post_le<const W: u32>(m: &Modular<W>, a: isize, b: isize, r: bool) -> bool {
    r == (dist::<W>(m.max, a) >= dist::<W>(m.max, b))
}
#[kani::proof_for_contract(Modular::<4>::trans)]
fn c12_modular_trans() { let m: Modular<4> = kani::any(); let _ = m.trans(kani::any()); }
#[kani::proof_for_contract(Modular::<4>::inver)]
fn c12_modular_inver() { let m: Modular<4> = kani::any(); let _ = m.inver(kani::any()); }
#[kani::proof_for_contract(Modular::<4>::le)]
fn c12_modular_le() { let m: Modular<4> = kani::any(); let _ = m.le(kani::any(), kani::any()); }
#[kani::proof]
fn c12_modular_trans_x() {
    let m: Modular<4> = kani::any(); let v: isize = kani::any();
    kani::assume(pre_trans(&m, v));
    assert!(post_trans(&m, v, m.trans(v)), "C12.modular.trans.post");
}
#[kani::proof]
fn c12_modular_inver_x() {
    let m: Modular<4> = kani::any(); let v: isize = kani::any();
    kani::assume(pre_inver(&m, v));
    assert!(post_inver(&m, v, m.inver(v)), "C12.modular.inver.post");
}
#[kani::proof]
fn c12_modular_le_x() {
    let m: Modular<4> = kani::any(); let (a, b): (isize, isize) = (kani::any(), kani::any());
    kani::assume(pre_le(&m, a, b));
    assert!(post_le(&m, a, b, m.le(a, b)), "C12.modular.le.post");
}

/// `max` over the three stamps of the only call site: the result is (mod 2^WIDTH) one of the
/// arguments, and no argument is newer (closer to max + 1) than it.
#[kani::proof]
#[kani::unwind(5)]
fn c12_modular_max3() {
    let c: isize = kani::any();
    kani::assume(c >= 0 && c < (1isize << 62) - 2);
    let m: Modular<EPOCH_WIDTH> = Modular::new(c + 1);
    let w = 1isize << EPOCH_WIDTH;
    let (a, b, d): (isize, isize, isize) = (kani::any(), kani::any(), kani::any());
    // stamps are field values: 0 <= x < 2^WIDTH, and each is the stamp of an epoch <= c + 1
    kani::assume(0 <= a && a < w && 0 <= b && b < w && 0 <= d && d < w);
    kani::assume(a <= c + 1 && b <= c + 1 && d <= c + 1);
    let r = m.max(&[a, b, d]);
    let rm = r.rem_euclid(w);
    assert!(rm == a || rm == b || rm == d, "C12.modular.max3.is_argument");
    let dr = dist::<EPOCH_WIDTH>(c + 1, rm);
    assert!(dr <= dist::<EPOCH_WIDTH>(c + 1, a) && dr <= dist::<EPOCH_WIDTH>(c + 1, b)
        && dr <= dist::<EPOCH_WIDTH>(c + 1, d), "C12.modular.max3.newest");
    // what the caller stores: `with_epoch(r as usize)` keeps exactly rm
    assert!(State::from_raw(0).with_epoch(r as usize).epoch() as isize == rm, "C12.modular.max3.stored_stamp");
    kani::cover!(c < 5 && rm == d && a != d, "cover.max3.small_epoch");
    kani::cover!(c > 100 && rm == b && a != b && b != d, "cover.max3.middle");
}

/// The decision predicate exactly as `dispose_general_node` evaluates it.
pub(super) fn old_enough(stamp: u32, curr_epoch: usize) -> bool {
    let modu: Modular<EPOCH_WIDTH> = Modular::new(curr_epoch as isize + 1);
    modu.le(stamp as _, curr_epoch as isize - 3)
}

/// Window theorem (second sentence of C12): for every current epoch c, every true age a in 0..=64
/// (a <= c) and the stamp s = (c - a) mod 16 of the epoch c - a:
///   a < 3            => never classified old enough
///   3 <= a <= 13     => classified old enough            (unambiguous window)
///   any a            => classified old enough only if (a mod 16) in 3..=13, in particular never
///                       when a mod 16 < 3 ... and a stamp whose true age is >= 3 but aliases into
///                       0..=2 or 14..=15 is merely treated as too recent (errs to "recent").
#[kani::proof]
fn c12_window_theorem() {
    let c: usize = kani::any();
    kani::assume(c < (1usize << 62));
    let a: usize = kani::any();
    kani::assume(a <= 64 && a <= c);
    let w = 1usize << EPOCH_WIDTH;
    let s = ((c - a) % w) as u32;
    let old = old_enough(s, c);
    if a < 3 { assert!(!old, "C12.window.never_old_below_threshold"); }
    if a >= 3 && a <= w - 3 { assert!(old, "C12.window.old_in_unambiguous_window"); }
    if old { assert!(a % w >= 3 && a % w <= w - 3, "C12.window.old_only_if_age_mod_ge_3"); }
    kani::cover!(old && a > 16, "cover.window.old_after_wrap");
    kani::cover!(!old && a >= 3, "cover.window.recent_after_wrap");
    kani::cover!(c < 3 && !old, "cover.window.small_epoch");
}

/// A stamp written one epoch *ahead* of the epoch the disposer read (the writer saw the advance
/// first; a pinned disposer lags by at most one) is never classified old enough either.
#[kani::proof]
fn c12_window_skew() {
    let c: usize = kani::any();
    kani::assume(c < (1usize << 62) - 1);
    let w = 1usize << EPOCH_WIDTH;
    let s = ((c + 1) % w) as u32;
    assert!(!old_enough(s, c), "C12.window.skewed_stamp_not_old");
}

/// C02 composition lemma (the arithmetic core of Snapshot validity): a thread pinned at epoch e sees the
/// clock at e or e+1 (C14).  Any stamp it leaves - or that is left on its behalf - while pinned is the
/// stamp of e or e+1 (decrement's stamp, a link's timestamp, WeakSnapshot::upgrade's stamp).  A cascade
/// decision taken while it is still pinned reads the clock at c in {e, e+1} and classifies the NEWEST of
/// (parent, link, child) stamps.  Then, whatever the other two stamps are, the decision is "recent":
/// the object is deferred behind the critical section instead of being reclaimed at once.
#[kani::proof]
#[kani::unwind(5)]
fn c02_stamp_inside_critical_section_blocks_immediate_reclamation() {
    let e: usize = kani::any();
    kani::assume(e < (1usize << 62) - 2);
    let sigma = e + kani::any::<bool>() as usize;          // epoch the protecting stamp was taken in
    let c = e + kani::any::<bool>() as usize;              // epoch the cascade decision reads
    let w = 1usize << EPOCH_WIDTH;
    let s = (sigma % w) as isize;
    // the other two stamps: field values of epochs <= c + 1
    let (x, y): (isize, isize) = (kani::any(), kani::any());
    kani::assume(0 <= x && x < w as isize && 0 <= y && y < w as isize);
    kani::assume(x <= c as isize + 1 && y <= c as isize + 1);
    let pos: u8 = kani::any();
    let modu: Modular<EPOCH_WIDTH> = Modular::new(c as isize + 1);
    let merged = match pos % 3 { 0 => modu.max(&[s, x, y]), 1 => modu.max(&[x, s, y]), _ => modu.max(&[x, y, s]) };
    let stored = State::from_raw(0).with_epoch(merged as usize).epoch();
    assert!(!old_enough(stored, c), "C02.lemma.stamp_taken_inside_cs_makes_every_decision_inside_cs_recent");
    // and directly: the stamp itself is never old for a decision inside the critical section
    assert!(!old_enough((sigma % w) as u32, c), "C02.lemma.own_stamp_is_recent");
    kani::cover!(sigma == e + 1 && c == e, "cover.c02.stamp_ahead_of_decision");
    kani::cover!(sigma == e && c == e + 1 && stored as usize != sigma % w, "cover.c02.another_stamp_is_newer");
}
