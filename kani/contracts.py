# In-place Kani function contracts, inserted mechanically above the `fn` line of the real function
# in the scratch copy of /repo on every run (lib/vlib.py: prepare_crate).  Each entry:
#   group   which property family needs it (only the groups a check asks for are inserted)
#   file    crate-relative path
#   within  regex of the `impl` header the function lives in (must match once)
#   anchor  regex of the `fn` line (must match exactly once inside that impl block)
#   fn      display name (evidence: "functions under contract")
#   attrs   attribute lines inserted verbatim
# Spec helper functions referenced here live in the harness module appended to the same file.

CONTRACTS = []
PROP_OF_GROUP = {"state": "C12", "modular": "C12", "tagged": "C11", "epoch": "C14", "expired": "C13"}


def c(group, file, within, anchor, fn, *attrs):
    d = dict(group=group, file=file, anchor=anchor, fn=fn, attrs=list(attrs), prop=PROP_OF_GROUP[group])
    if within:
        d["within"] = within
    CONTRACTS.append(d)


U = "src/utils.rs"
ST = r"^impl State \{"

# ---- C12: State — every method gives all five fields of its result (frame included) ----------
# The requires/ensures bodies are the spec functions pre_*/post_* of kani/utils_state_h.rs, so the
# proof_for_contract harness and its natively replayable twin check one and the same text.
def state(fn, sig, args, has_pre):
    a = "".join(", " + x for x in args)
    attrs = []
    if has_pre:
        attrs.append("#[kani::requires(verif_state::pre_%s(self%s))]" % (fn, a))
    attrs.append("#[kani::ensures(|r| verif_state::post_%s(self%s, *r))]" % (fn, a))
    c("state", U, ST, r"^\s*fn %s\(%s\) -> \w+ \{" % (fn, sig), "State::" + fn, *attrs)


c("state", U, ST, r"^\s*fn from_raw\(inner: u64\) -> Self \{", "State::from_raw",
  "#[kani::ensures(|r| verif_state::post_from_raw(inner, *r))]")
state("epoch", "self", [], False)
state("strong", "self", [], False)
state("weak", "self", [], False)
state("destructed", "self", [], False)
state("with_epoch", "self, epoch: usize", ["epoch"], False)
state("add_strong", "self, val: u32", ["val"], True)
state("sub_strong", "self, val: u32", ["val"], True)
state("add_weak", "self, val: u32", ["val"], True)
state("with_destructed", "self, dest: bool", ["dest"], False)
state("with_weaked", "self, weaked: bool", ["weaked"], False)
state("as_raw", "self", [], False)

# ---- C12: Modular<WIDTH> — distances behind `max + 1` in the 2^WIDTH window --------------------
MO = r"^impl<const WIDTH: u32> Modular<WIDTH> \{"
c("modular", U, MO, r"^\s*fn trans\(&self, val: isize\) -> isize \{", "Modular::trans",
  "#[kani::requires(verif_state::pre_trans(self, val))]",
  "#[kani::ensures(|r| verif_state::post_trans(self, val, *r))]")
c("modular", U, MO, r"^\s*fn inver\(&self, val: isize\) -> isize \{", "Modular::inver",
  "#[kani::requires(verif_state::pre_inver(self, val))]",
  "#[kani::ensures(|r| verif_state::post_inver(self, val, *r))]")
c("modular", U, MO, r"^\s*pub fn le\(&self, a: isize, b: isize\) -> bool \{", "Modular::le",
  "#[kani::requires(verif_state::pre_le(self, a, b))]",
  "#[kani::ensures(|r| verif_state::post_le(self, a, b, *r))]")

# ---- C11: Tagged<T> — tagging never corrupts the address; timestamp bits invisible -------------
PT = "src/ebr_impl/pointers.rs"
TG = r"^impl<T> Tagged<T> \{"


def tagged(fn, sig, ret, args):
    a = "".join(", " + x for x in args)
    c("tagged", PT, TG, r"^\s*pub fn %s\(%s\) -> %s \{" % (fn, sig, ret), "Tagged::" + fn,
      "#[kani::ensures(|r| verif_ptr::post_%s(self%s, r))]" % (fn, a))


c("tagged", PT, TG, r"^\s*pub fn null\(\) -> Self \{", "Tagged::null",
  "#[kani::ensures(|r| verif_ptr::post_null(r))]")
tagged("is_null", "&self", "bool", [])
tagged("tag", "&self", "usize", [])
tagged("high_tag", "&self", "usize", [])
tagged("as_raw", "&self", r"\*mut T", [])
tagged("with_tag", "&self, tag: usize", "Self", ["tag"])
tagged("with_high_tag", "&self, tag: usize", "Self", ["tag"])
c("tagged", PT, TG, r"^\s*pub fn ptr_eq\(self, other: Self\) -> bool \{", "Tagged::ptr_eq",
  "#[kani::ensures(|r| verif_ptr::post_ptr_eq(&self, &other, r))]")
c("tagged", PT, None, r"^fn with_tag<T>\(ptr: \*mut T, tag: usize\) -> \*mut T \{", "pointers::with_tag",
  "#[kani::ensures(|r| verif_ptr::post_free_with_tag::<T>(ptr, tag, *r))]")

# ---- C14: Epoch — data = 2 * value + pinned bit; successor is +1 on the value --------------------
EP = "src/ebr_impl/epoch.rs"
EI = r"^impl Epoch \{"
c("epoch", EP, EI, r"^\s*pub\(crate\) fn starting\(\) -> Self \{", "Epoch::starting",
  "#[kani::ensures(|r| verif_epoch::post_starting(*r))]")
c("epoch", EP, EI, r"^\s*pub fn wrapping_sub\(self, rhs: Self\) -> isize \{", "Epoch::wrapping_sub",
  "#[kani::ensures(|r| verif_epoch::post_wrapping_sub(self, rhs, *r))]")
c("epoch", EP, EI, r"^\s*pub\(crate\) fn is_pinned\(self\) -> bool \{", "Epoch::is_pinned",
  "#[kani::ensures(|r| verif_epoch::post_is_pinned(self, *r))]")
c("epoch", EP, EI, r"^\s*pub\(crate\) fn pinned\(self\) -> Epoch \{", "Epoch::pinned",
  "#[kani::ensures(|r| verif_epoch::post_pinned(self, *r))]")
c("epoch", EP, EI, r"^\s*pub\(crate\) fn unpinned\(self\) -> Epoch \{", "Epoch::unpinned",
  "#[kani::ensures(|r| verif_epoch::post_unpinned(self, *r))]")
c("epoch", EP, EI, r"^\s*pub\(crate\) fn successor\(self\) -> Epoch \{", "Epoch::successor",
  "#[kani::ensures(|r| verif_epoch::post_successor(self, *r))]")
c("epoch", EP, EI, r"^\s*pub fn value\(self\) -> usize \{", "Epoch::value",
  "#[kani::ensures(|r| verif_epoch::post_value(self, *r))]")

# ---- C13: SealedBag::is_expired -------------------------------------------------------------------
c("expired", "src/ebr_impl/internal.rs", r"^impl SealedBag \{", r"^\s*fn is_expired\(&self, global_epoch: Epoch\) -> bool \{", "SealedBag::is_expired",
  "#[kani::ensures(|r| verif_internal::post_is_expired(self, global_epoch, *r))]")

