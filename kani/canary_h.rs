// Vacuity canary (child module of the crate root): a FALSE claim. Every check runs it and expects
// the verifier to refute it; if it "verifies", the tool chain is vacuous and the check is undecided.
#[kani::proof]
fn canary_false_claim_must_fail() {
    let x: u8 = kani::any();
    assert!(x != 200, "CANARY.false_claim_must_be_refuted");
}
