// C11 — tagging never corrupts the address; internal epoch (timestamp) bits are invisible.
// Child module of crate::ebr_impl::pointers.  Contract text = the post_* functions below (used by
// the in-place attributes of kani/contracts.py group "tagged" and by the replayable twins).
// The spec is written from the property, independently of the crate's mask helpers:
//   word  = | timestamp: HIGH_TAG_WIDTH bits | address bits ... | tag: log2(align_of::<T>()) bits |
#![allow(dead_code, unused_imports)]
use super::*;

pub(super) fn word<T>(t: &Tagged<T>) -> usize { t.ptr as usize }
pub(super) fn lowmask<T>() -> usize { core::mem::align_of::<T>() - 1 }          // align is a power of two
pub(super) fn himask() -> usize { !(usize::MAX >> HIGH_TAG_WIDTH) }
pub(super) fn addr<T>(w: usize) -> usize { w & !lowmask::<T>() & !himask() }
pub(super) fn tagof<T>(w: usize) -> usize { w & lowmask::<T>() }
pub(super) fn stampof(w: usize) -> usize { w >> (usize::BITS - HIGH_TAG_WIDTH) }

pub(super) fn post_null<T>(r: &Tagged<T>) -> bool { word(r) == 0 }
pub(super) fn post_is_null<T>(s: &Tagged<T>, r: &bool) -> bool { *r == (addr::<T>(word(s)) == 0) }
pub(super) fn post_tag<T>(s: &Tagged<T>, r: &usize) -> bool { *r == tagof::<T>(word(s)) }
pub(super) fn post_high_tag<T>(s: &Tagged<T>, r: &usize) -> bool { *r == stampof(word(s)) }
pub(super) fn post_as_raw<T>(s: &Tagged<T>, r: &*mut T) -> bool { *r as usize == addr::<T>(word(s)) }
pub(super) fn post_with_tag<T>(s: &Tagged<T>, tag: usize, r: &Tagged<T>) -> bool {
    addr::<T>(word(r)) == addr::<T>(word(s)) && stampof(word(r)) == stampof(word(s))
        && tagof::<T>(word(r)) == tag & lowmask::<T>()
}
pub(super) fn post_with_high_tag<T>(s: &Tagged<T>, tag: usize, r: &Tagged<T>) -> bool {
    addr::<T>(word(r)) == addr::<T>(word(s)) && tagof::<T>(word(r)) == tagof::<T>(word(s))
        && stampof(word(r)) == tag % (1usize << HIGH_TAG_WIDTH)
}
pub(super) fn post_ptr_eq<T>(a: &Tagged<T>, b: &Tagged<T>, r: &bool) -> bool {
    *r == (addr::<T>(word(a)) == addr::<T>(word(b)) && tagof::<T>(word(a)) == tagof::<T>(word(b)))
}
pub(super) fn post_free_with_tag<T>(p: *mut T, tag: usize, r: *mut T) -> bool {
    let (w, x) = (p as usize, r as usize);
    x & !lowmask::<T>() == w & !lowmask::<T>() && x & lowmask::<T>() == tag & lowmask::<T>()
}

impl<T> kani::Arbitrary for Tagged<T> {
    fn any() -> Self { Tagged { ptr: kani::any::<usize>() as *mut T } }
}

#[repr(align(32))]
pub(super) struct A32(u8);
#[repr(align(64))]
pub(super) struct A64(u8);
#[repr(align(4096))]
pub(super) struct A4096(u8);

// One complete (loop-free, full usize domain for word / tag / timestamp) proof per alignment.
macro_rules! tagged_proofs {
    ($m:ident, $t:ty) => {
        mod $m {
            use super::*;
            type T = $t;
            #[kani::proof_for_contract(Tagged::<T>::null)]      pub(super) fn null() { let _ = Tagged::<T>::null(); }
            #[kani::proof_for_contract(Tagged::<T>::is_null)]   pub(super) fn is_null() { let t: Tagged<T> = kani::any(); let _ = t.is_null(); }
            #[kani::proof_for_contract(Tagged::<T>::tag)]       pub(super) fn tag() { let t: Tagged<T> = kani::any(); let _ = t.tag(); }
            #[kani::proof_for_contract(Tagged::<T>::high_tag)]  pub(super) fn high_tag() { let t: Tagged<T> = kani::any(); let _ = t.high_tag(); }
            #[kani::proof_for_contract(Tagged::<T>::as_raw)]    pub(super) fn as_raw() { let t: Tagged<T> = kani::any(); let _ = t.as_raw(); }
            #[kani::proof_for_contract(Tagged::<T>::with_tag)]  pub(super) fn with_tag() { let t: Tagged<T> = kani::any(); let _ = t.with_tag(kani::any()); }
            #[kani::proof_for_contract(Tagged::<T>::with_high_tag)] pub(super) fn with_high_tag() { let t: Tagged<T> = kani::any(); let _ = t.with_high_tag(kani::any()); }
            #[kani::proof_for_contract(Tagged::<T>::ptr_eq)]    pub(super) fn ptr_eq() { let t: Tagged<T> = kani::any(); let _ = t.ptr_eq(kani::any()); }
            #[kani::proof_for_contract(super::super::with_tag::<T>)] pub(super) fn free_with_tag() { let _ = super::super::with_tag::<T>(kani::any::<usize>() as *mut T, kani::any()); }

            /// Replayable twin: the same post-conditions as plain assertions, plus the property's
            /// round-trip / invisibility statements derived from them on the real functions.
            #[kani::proof]
            pub(super) fn twin() {
                let t: Tagged<T> = kani::any();
                let (g, h): (usize, usize) = (kani::any(), kani::any());
                assert!(post_null(&Tagged::<T>::null()), "C11.tagged.null.post");
                assert!(post_is_null(&t, &t.is_null()), "C11.tagged.is_null.post");
                assert!(post_tag(&t, &t.tag()), "C11.tagged.tag.post");
                assert!(post_high_tag(&t, &t.high_tag()), "C11.tagged.high_tag.post");
                assert!(post_as_raw(&t, &t.as_raw()), "C11.tagged.as_raw.post");
                assert!(post_with_tag(&t, g, &t.with_tag(g)), "C11.tagged.with_tag.post");
                assert!(post_with_high_tag(&t, h, &t.with_high_tag(h)), "C11.tagged.with_high_tag.post");
                let u: Tagged<T> = kani::any();
                assert!(post_ptr_eq(&t, &u, &t.ptr_eq(u)), "C11.tagged.ptr_eq.post");
                // property text, on the real functions:
                assert!(t.with_tag(g).tag() == g & lowmask::<T>(), "C11.roundtrip.tag_truncated_to_alignment");
                assert!(t.with_tag(g).as_raw() == t.as_raw(), "C11.with_tag.address_unchanged");
                assert!(t.with_high_tag(h).as_raw() == t.as_raw() && t.with_high_tag(h).tag() == t.tag(), "C11.timestamp.leaves_address_and_tag");
                assert!(t.with_high_tag(h).is_null() == t.is_null(), "C11.timestamp.invisible_to_is_null");
                assert!(t.with_high_tag(h).ptr_eq(t) && t.ptr_eq(t.with_high_tag(h)), "C11.timestamp.invisible_to_ptr_eq");
                assert!(Tagged::<T>::null().with_tag(g).with_high_tag(h).is_null(), "C11.null.tagged_timestamped_null_is_null");
                assert!(Tagged::<T>::null().with_tag(g).with_high_tag(h).as_raw().is_null(), "C11.null.as_raw_null");
                // From<*mut T> / From<*const T> keep the word
                let p = word(&t) as *mut T;
                assert!(word(&Tagged::<T>::from(p)) == word(&t) && word(&Tagged::<T>::from(p as *const T)) == word(&t), "C11.from.keeps_word");
                kani::cover!(t.tag() != 0 || lowmask::<T>() == 0, "cover.tagged.some_tag");
                kani::cover!(t.high_tag() == 15 && !t.is_null(), "cover.tagged.max_stamp");
            }

            /// Dereference ignores tag and timestamp: on a real allocation, a tagged and
            /// timestamped pointer derefs/as_refs to exactly the object.
            #[kani::proof]
            pub(super) fn deref_real() {
                let b = Box::into_raw(Box::new(unsafe { core::mem::zeroed::<T>() }));
                kani::assume((b as usize) & himask() == 0);      // A-ADDR (the crate's own requirement)
                let t = Tagged::<T>::from(b).with_tag(kani::any()).with_high_tag(kani::any());
                assert!(t.as_raw() == b, "C11.deref.as_raw_is_object");
                assert!(unsafe { t.deref() } as *const T == b as *const T, "C11.deref.ignores_tag_and_timestamp");
                let mut t2 = t;
                assert!(unsafe { t2.deref_mut() } as *mut T == b, "C11.deref_mut.ignores_tag_and_timestamp");
                assert!(unsafe { t.as_ref() }.map(|r| r as *const T) == Some(b as *const T), "C11.as_ref.some_object");
                assert!(unsafe { Tagged::<T>::null().with_tag(kani::any()).with_high_tag(kani::any()).as_ref() }.is_none(), "C11.as_ref.null_none");
                kani::cover!(t.high_tag() == 9, "cover.deref.addr_assumption_satisfiable");
                unsafe { drop(Box::from_raw(b)) };
            }
        }
    };
}
tagged_proofs!(t_u8, u8);
tagged_proofs!(t_u16, u16);
tagged_proofs!(t_u32, u32);
tagged_proofs!(t_u64, u64);
tagged_proofs!(t_u128, u128);
tagged_proofs!(t_a32, A32);
tagged_proofs!(t_a64, A64);
tagged_proofs!(t_a4096, A4096);

/// RawShared (the EBR-internal wrapper) forwards tag / with_tag / as_raw / ptr_eq unchanged.
#[kani::proof]
fn rawshared_forwards() {
    let t: Tagged<u64> = kani::any();
    let s = RawShared::from(t);
    let g: usize = kani::any();
    assert!(s.tag() == t.tag() && s.as_raw() == t.as_raw(), "C11.rawshared.forwards_tag_as_raw");
    assert!(word(&s.with_tag(g).inner) == word(&t.with_tag(g)), "C11.rawshared.forwards_with_tag");
    let u: Tagged<u64> = kani::any();
    assert!(s.ptr_eq(RawShared::from(u)) == t.ptr_eq(u), "C11.rawshared.forwards_ptr_eq");
}

/// Pointer formatting ignores tag and timestamp (thorough tier: core::fmt is costly in CBMC).
pub(super) struct Sink { pub buf: [u8; 24], pub n: usize }
impl core::fmt::Write for Sink {
    fn write_str(&mut self, s: &str) -> core::fmt::Result {
        let b = s.as_bytes();
        let mut i = 0;
        while i < b.len() { if self.n < 24 { self.buf[self.n] = b[i]; } self.n += 1; i += 1; }
        Ok(())
    }
}
#[kani::proof]
#[kani::unwind(26)]
fn c11_pointer_fmt_ignores_tag_and_timestamp() {
    use core::fmt::Write;
    let w: usize = kani::any();
    kani::assume(w < 0x1_0000 && w & 7 == 0);                  // small addresses keep the digit loop short
    let t: Tagged<u64> = Tagged::from(w as *mut u64);
    let u = t.with_tag(kani::any()).with_high_tag(kani::any());
    let (mut a, mut b) = (Sink { buf: [0; 24], n: 0 }, Sink { buf: [0; 24], n: 0 });
    let _ = write!(a, "{:p}", t);
    let _ = write!(b, "{:p}", u);
    assert!(a.n == b.n && a.buf == b.buf && a.n >= 3, "C11.fmt.pointer_formatting_ignores_tag_and_timestamp");
}
