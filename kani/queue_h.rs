// Child module of crate::ebr_impl::sync::queue.  C17 (sequential, bounded) and the queue's contract
// as a stub for the collector harnesses.
#![allow(dead_code, unused_imports, static_mut_refs, unused_variables, unused_mut)]
use super::*;

// ---- the queue's sequential contract as a callee stub (FIFO over a ghost array of boxed items) ----
pub(crate) static mut Q_ITEMS: [usize; 4] = [0; 4];
pub(crate) static mut Q_HEAD: usize = 0;
pub(crate) static mut Q_TAIL: usize = 0;
pub(crate) static mut Q_PUSHES: u32 = 0;
pub(crate) static mut Q_POP_ATTEMPTS: u32 = 0;
impl<T> Queue<T> {
    pub(crate) fn k_push(&self, t: T, _guard: &Guard) {
        unsafe { Q_PUSHES += 1; assert!(Q_TAIL < 4); Q_ITEMS[Q_TAIL] = Box::into_raw(Box::new(t)) as usize; Q_TAIL += 1; }
    }
    /// an empty queue (used to cut the collector-teardown cone where the collector provably survives)
    pub(crate) fn k_try_pop_empty(&self, _guard: &Guard) -> Option<T> { None }
    /// removes the head only if the predicate holds for that very element; None if empty or predicate false
    pub(crate) fn k_try_pop_if<F>(&self, condition: F, _guard: &Guard) -> Option<T>
    where
        T: Sync,
        F: Fn(&T) -> bool,
    {
        unsafe {
            Q_POP_ATTEMPTS += 1;
            if Q_HEAD == Q_TAIL { return None; }
            let b: Box<T> = Box::from_raw(Q_ITEMS[Q_HEAD] as *mut T);
            if condition(&*b) { Q_HEAD += 1; Some(*b) } else { let _ = Box::into_raw(b); None }
        }
    }
}

// ================================================================================================
// C17 — sequential FIFO / predicate contract on the REAL queue (bounded: <= 3 elements, sequential)
// ================================================================================================
static mut RETIRED: [usize; 6] = [0; 6];
static mut RETIRES: usize = 0;
/// Contract of Guard::defer_destroy (A-EBR): the node is destroyed later, exactly once.
unsafe fn k_retire<T>(_g: &Guard, ptr: RawShared<T>) { if RETIRES < 6 { RETIRED[RETIRES] = ptr.as_raw() as usize; } RETIRES += 1; }

unsafe fn word<T>(a: &RawAtomic<Node<T>>) -> usize { *(a as *const RawAtomic<Node<T>> as *const usize) }
/// Abstract view: the payloads reachable from head.next, in order (at most 4).
unsafe fn view(q: &Queue<u8>) -> ([u8; 4], usize) {
    let mut out = [0u8; 4];
    let mut n = 0;
    let mut cur = word(&q.head) as *const Node<u8>;          // sentinel
    let mut i = 0;
    while i < 4 {
        let nx = word(&(*cur).next) as *const Node<u8>;
        if nx.is_null() { break; }
        out[n] = *(*nx).data.as_ptr(); n += 1;
        cur = nx; i += 1;
    }
    (out, n)
}
static mut PRED_TABLE: [bool; 4] = [false; 4];
static mut PRED_CALLS: usize = 0;
static mut PRED_ARG: u8 = 0;
fn pred(x: &u8) -> bool { unsafe { PRED_CALLS += 1; PRED_ARG = *x; PRED_TABLE[(*x & 3) as usize] } }

#[kani::proof]
#[kani::stub(Guard::defer_destroy, k_retire)]
#[kani::unwind(6)]
fn c17_queue_sequential() {
    unsafe {
        let q = core::mem::ManuallyDrop::new(Queue::<u8>::new());
        let g = core::mem::ManuallyDrop::new(unprotected());
        assert!(view(&q).1 == 0, "C17.new.empty");
        let n: usize = kani::any();
        kani::assume(n <= 3);
        let vals: [u8; 3] = [kani::any(), kani::any(), kani::any()];
        let mut i = 0;
        while i < n {
            q.push(vals[i], &g);
            let (v, len) = view(&q);
            assert!(len == i + 1 && v[i] == vals[i] && (i == 0 || v[i - 1] == vals[i - 1]), "C17.push.appends_at_the_back");
            i += 1;
        }
        assert!(RETIRES == 0, "C17.push.retires_nothing");
        PRED_TABLE = [kani::any(), kani::any(), kani::any(), kani::any()];
        // two operations of either kind on the resulting queue
        let mut front = 0;                                     // index in vals of the current head element
        let mut k = 0;
        while k < 2 {
            let (before, blen) = view(&q);
            let sentinel = word(&q.head);
            let retires_before = RETIRES;
            let conditional: bool = kani::any();
            PRED_CALLS = 0;
            let r = if conditional { q.try_pop_if(pred, &g) } else { q.try_pop(&g) };
            let (after, alen) = view(&q);
            if blen == 0 {
                assert!(r.is_none() && alen == 0 && PRED_CALLS == 0, "C17.pop.empty_queue_gives_none");
            } else if conditional && !PRED_TABLE[(before[0] & 3) as usize] {
                assert!(r.is_none() && alen == blen && after[0] == before[0], "C17.pop_if.head_failing_predicate_stays");
                assert!(PRED_CALLS >= 1 && PRED_ARG == before[0], "C17.pop_if.predicate_evaluated_on_the_head_element");
            } else {
                assert!(r == Some(before[0]) && before[0] == vals[front], "C17.pop.returns_oldest_element_fifo");
                assert!(alen == blen - 1 && (alen == 0 || after[0] == before[1]), "C17.pop.removes_exactly_the_head");
                if conditional { assert!(PRED_ARG == before[0], "C17.pop_if.predicate_held_for_that_very_element"); }
                assert!(RETIRES == retires_before + 1 && RETIRED[retires_before] == sentinel, "C17.pop.retires_old_sentinel_exactly_once");
                front += 1;
            }
            if r.is_none() { assert!(RETIRES == retires_before, "C17.pop.none_retires_nothing"); }
            k += 1;
        }
        assert!(RETIRES < 2 || RETIRED[0] != RETIRED[1], "C17.pop.no_node_retired_twice");
        // tail may lag but is always a node of the list: a further push still appends
        q.push(77, &g);
        let (v, len) = view(&q);
        assert!(len >= 1 && v[len - 1] == 77, "C17.push.after_pops_still_appends");
        kani::cover!(n == 3 && front == 2, "cover.queue.two_pops");
        kani::cover!(n == 2 && front == 0 && RETIRES == 0, "cover.queue.predicate_blocks");
        kani::cover!(n == 1 && front == 1, "cover.queue.pop_to_empty");
    }
}

// ---- one environment step at the queue's only user-visible yield point: inside the predicate -------
static mut INTERFERE: bool = false;
static mut QPTR: usize = 0;
static mut ENV_POPPED: Option<u8> = None;
static mut PRED_LOG: [u8; 4] = [0; 4];
static mut PRED_RES: [bool; 4] = [false; 4];
static mut PRED_N: usize = 0;
/// predicate during whose first evaluation ANOTHER consumer pops the head (the environment's step)
fn pred_with_interference(x: &u8) -> bool {
    unsafe {
        let r = PRED_TABLE[(*x & 3) as usize];
        if PRED_N < 4 { PRED_LOG[PRED_N] = *x; PRED_RES[PRED_N] = r; }
        PRED_N += 1;
        if INTERFERE {
            INTERFERE = false;
            let q = &*(QPTR as *const Queue<u8>);
            let g = core::mem::ManuallyDrop::new(unprotected());
            ENV_POPPED = q.try_pop(&g);
        }
        r
    }
}

/// Backoff::spin only burns time (its `pause` intrinsic is not modelled by Kani).
fn k_spin(_b: &Backoff) {}
/// try_pop_if under interference: whatever it returns is an element the predicate was evaluated on
/// and held for - also when another consumer removed the checked head in between.
#[kani::proof]
#[kani::stub(Guard::defer_destroy, k_retire)]
#[kani::stub(crossbeam_utils::Backoff::spin, k_spin)]
#[kani::unwind(6)]
fn c17_pop_if_under_interference() {
    unsafe {
        let q = core::mem::ManuallyDrop::new(Queue::<u8>::new());
        let g = core::mem::ManuallyDrop::new(unprotected());
        let (a, b): (u8, u8) = (kani::any(), kani::any());
        q.push(a, &g);
        q.push(b, &g);
        PRED_TABLE = [kani::any(), kani::any(), kani::any(), kani::any()];
        QPTR = &*q as *const Queue<u8> as usize;
        INTERFERE = kani::any();
        let interfered = INTERFERE;
        let r = q.try_pop_if(pred_with_interference, &g);
        if let Some(x) = r {
            // the predicate was evaluated on x itself, and answered true
            let mut ok = false;
            let mut i = 0;
            while i < PRED_N && i < 4 { if PRED_LOG[i] == x && PRED_RES[i] { ok = true; } i += 1; }
            assert!(ok, "C17.pop_if.removed_element_is_one_the_predicate_held_for");
            assert!(ENV_POPPED != Some(x) || a == b, "C17.pop.element_popped_at_most_once");
        }
        if interfered {
            assert!(ENV_POPPED == Some(a), "C17.pop.environment_consumer_gets_the_head_fifo");
            assert!(r.is_none() || r == Some(b), "C17.pop_if.after_interference_only_the_new_head");
        }
        kani::cover!(interfered && r == Some(b) && a != b, "cover.pop_if.retry_on_new_head");
        kani::cover!(interfered && r.is_none(), "cover.pop_if.new_head_fails_predicate");
    }
}
