// Child module of crate::ebr_impl::deferred.  C15: a Deferred stores its closure inline or boxed
// and calls it exactly once with its captured data intact, for every size/alignment class.
#![allow(dead_code, unused_imports, static_mut_refs, unused_variables, unused_mut)]
use super::*;

static mut RUNS: u32 = 0;
static mut SUM: u64 = 0;
static mut DROPS_OF_CAPTURE: u32 = 0;

/// captured payload of S bytes with alignment class chosen by the wrapper types below
#[derive(Clone, Copy)] struct P<const S: usize>([u8; S]);
#[derive(Clone, Copy)] #[repr(align(8))]  struct A8<const S: usize>([u8; S]);
#[derive(Clone, Copy)] #[repr(align(16))] struct A16<const S: usize>([u8; S]);
#[derive(Clone, Copy)] #[repr(align(32))] struct A32<const S: usize>([u8; S]);

fn fill<const S: usize>(seed: u8) -> [u8; S] { let mut a = [0u8; S]; let mut i = 0; while i < S { a[i] = seed.wrapping_add(i as u8); i += 1; } a }
fn sum<const S: usize>(a: &[u8; S]) -> u64 { let mut s = 0u64; let mut i = 0; while i < S { s += a[i] as u64 * (i as u64 + 1); i += 1; } s }

macro_rules! deferred_case {
    ($name:ident, $wrap:ident, $size:expr, $inline:expr) => {
        #[kani::proof]
        #[kani::unwind(70)]
        fn $name() {
            let seed: u8 = kani::any();
            let data: [u8; $size] = fill::<$size>(seed);
            let expect = sum(&data);
            let cap = $wrap::<$size>(data);
            let f = move || unsafe { let whole = &cap; RUNS += 1; SUM = sum(&whole.0); };   // capture the whole (aligned) struct, not just its field
            // which storage class this closure type falls in (from the property: <= 3 words and word alignment)
            let inline = core::mem::size_of_val(&f) <= 3 * core::mem::size_of::<usize>() && core::mem::align_of_val(&f) <= core::mem::align_of::<usize>();
            assert!(inline == $inline, "C15.deferred.storage_class_as_expected");
            let d = Deferred::new(f);
            unsafe { assert!(RUNS == 0, "C15.deferred.new_does_not_run_the_closure"); }
            d.call();
            unsafe {
                assert!(RUNS == 1, "C15.deferred.call_runs_exactly_once");
                assert!(SUM == expect, "C15.deferred.captured_data_intact");
            }
        }
    };
}
// size x alignment classes: inline needs size <= 24 AND align <= 8
deferred_case!(c15_deferred_s0_a1, P, 0, true);
deferred_case!(c15_deferred_s1_a1, P, 1, true);
deferred_case!(c15_deferred_s8_a8, A8, 8, true);
deferred_case!(c15_deferred_s24_a1, P, 24, true);
deferred_case!(c15_deferred_s24_a8, A8, 24, true);
deferred_case!(c15_deferred_s25_a1, P, 25, false);
deferred_case!(c15_deferred_s28_a1, P, 28, false);
deferred_case!(c15_deferred_s31_a1, P, 31, false);
deferred_case!(c15_deferred_s32_a8, A8, 32, false);
deferred_case!(c15_deferred_s16_a16, A16, 16, false);
deferred_case!(c15_deferred_s32_a32, A32, 32, false);
deferred_case!(c15_deferred_s64_a8, A8, 64, false);

/// A closure that owns a heap value: moved in, moved out, dropped exactly once by the call.
struct Tracked(u32);
impl Drop for Tracked { fn drop(&mut self) { unsafe { DROPS_OF_CAPTURE += 1; } } }
#[kani::proof]
fn c15_deferred_owning_closure() {
    let t = Tracked(kani::any());
    let v = t.0;
    let b: Box<u32> = Box::new(v);
    let d = Deferred::new(move || unsafe { let t = t; RUNS += 1; SUM = (t.0 as u64) ^ (*b as u64) ^ 0x55; });
    unsafe { assert!(DROPS_OF_CAPTURE == 0 && RUNS == 0, "C15.deferred.capture_alive_until_call"); }
    d.call();
    unsafe {
        assert!(RUNS == 1 && SUM == 0x55, "C15.deferred.owning_closure_runs_once_with_its_captures");
        assert!(DROPS_OF_CAPTURE == 1, "C15.deferred.captures_dropped_exactly_once");
    }
}
