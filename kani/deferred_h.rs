// Child module of crate::ebr_impl::deferred.  C15: a Deferred stores its closure inline or boxed
// and calls it exactly once with its captured data intact, for every size/alignment class.
#![allow(dead_code, unused_imports, static_mut_refs, unused_variables, unused_mut)]
use super::*;

static mut RUNS: u32 = 0;
static mut SUM: u64 = 0;
static mut DROPS_OF_CAPTURE: u32 = 0;

/// captured payload of S bytes with alignment class chosen by the wrapper types below
#[derive(Clone, Copy)] struct P<const S: usize>([u8; S]);
#[derive(Clone, Copy)] #[repr(align(8))]  struct A8<const S: usize>([u8; S]);
#[derive(Clone, Copy)] #[repr(align(16))] struct A16<const S: usize>([u8; S]);
#[derive(Clone, Copy)] #[repr(align(32))] struct A32<const S: usize>([u8; S]);

fn fill<const S: usize>(seed: u8) -> [u8; S] { let mut a = [0u8; S]; let mut i = 0; while i < S { a[i] = seed.wrapping_add(i as u8); i += 1; } a }
fn sum<const S: usize>(a: &[u8; S]) -> u64 { let mut s = 0u64; let mut i = 0; while i < S { s += a[i] as u64 * (i as u64 + 1); i += 1; } s }

macro_rules! deferred_case {
    ($name:ident, $wrap:ident, $size:expr, $inline:expr) => {
        #[kani::proof]
        #[kani::unwind(70)]
        fn $name() {
            let seed: u8 = kani::any();
            let data: [u8; $size] = fill::<$size>(seed);
            let expect = sum(&data);
            let cap = $wrap::<$size>(data);
            let f = move || unsafe { let whole = &cap; RUNS += 1; SUM = sum(&whole.0); };   // capture the whole (aligned) struct, not just its field
            // (the closure really has the size / alignment the case is named after; which storage class the
            //  code picks for it is not part of the property and not asserted)
            assert!(core::mem::size_of_val(&f) == $size.max(core::mem::align_of_val(&f) * (($size + core::mem::align_of_val(&f) - 1) / core::mem::align_of_val(&f).max(1))) || $size == 0, "C15.deferred.case_has_the_intended_layout");
            let d = Deferred::new(f);
            unsafe { assert!(RUNS == 0, "C15.deferred.new_does_not_run_the_closure"); }
            d.call();
            unsafe {
                assert!(RUNS == 1, "C15.deferred.call_runs_exactly_once");
                assert!(SUM == expect, "C15.deferred.captured_data_intact");
            }
        }
    };
}
// size x alignment classes: inline needs size <= 24 AND align <= 8
deferred_case!(c15_deferred_s0_a1, P, 0, true);
deferred_case!(c15_deferred_s1_a1, P, 1, true);
deferred_case!(c15_deferred_s8_a8, A8, 8, true);
deferred_case!(c15_deferred_s24_a1, P, 24, true);
deferred_case!(c15_deferred_s24_a8, A8, 24, true);
deferred_case!(c15_deferred_s25_a1, P, 25, false);
deferred_case!(c15_deferred_s28_a1, P, 28, false);
deferred_case!(c15_deferred_s31_a1, P, 31, false);
deferred_case!(c15_deferred_s32_a8, A8, 32, false);
deferred_case!(c15_deferred_s16_a16, A16, 16, false);
deferred_case!(c15_deferred_s32_a32, A32, 32, false);
deferred_case!(c15_deferred_s64_a8, A8, 64, false);

/// A closure that owns a heap value: moved in, moved out, dropped exactly once by the call.
struct Tracked(u32);
impl Drop for Tracked { fn drop(&mut self) { unsafe { DROPS_OF_CAPTURE += 1; } } }
#[kani::proof]
fn c15_deferred_owning_closure() {
    let t = Tracked(kani::any());
    let v = t.0;
    let b: Box<u32> = Box::new(v);
    let d = Deferred::new(move || unsafe { let t = t; RUNS += 1; SUM = (t.0 as u64) ^ (*b as u64) ^ 0x55; });
    unsafe { assert!(DROPS_OF_CAPTURE == 0 && RUNS == 0, "C15.deferred.capture_alive_until_call"); }
    d.call();
    unsafe {
        assert!(RUNS == 1 && SUM == 0x55, "C15.deferred.owning_closure_runs_once_with_its_captures");
        assert!(DROPS_OF_CAPTURE == 1, "C15.deferred.captures_dropped_exactly_once");
    }
}


// ---- tagged functions for the bag / collector harnesses (internal_h.rs) ------------------------------
pub(crate) static mut EXEC: [u32; 6] = [0; 6];          // how often function i ran
pub(crate) static mut EXEC_ORDER: [u8; 8] = [0; 8];
pub(crate) static mut EXEC_N: usize = 0;
unsafe fn record(i: u8) { EXEC[i as usize] += 1; if EXEC_N < 8 { EXEC_ORDER[EXEC_N] = i; } EXEC_N += 1; }
/// a deferred function that records its tag when it runs (its only capture is the tag byte)
pub(crate) fn tagged_deferred(i: u8) -> Deferred { Deferred::new(move || unsafe { record(i) }) }
/// Contract of Deferred::call for TAGGED functions, as a stub for the collector harnesses: running a
/// tagged function records its tag exactly once (proved on the real call in c15_tagged_call_contract).
/// It avoids CBMC's function-pointer switch over every closure type of the crate at each call site.
pub(crate) fn k_call_tagged(mut d: Deferred) {
    unsafe { let tag = *(d.data.as_mut_ptr() as *const u8); record(tag); }
    core::mem::forget(d);
}
#[kani::proof]
fn c15_tagged_call_contract() {
    let i: u8 = kani::any();
    kani::assume(i < 6);
    let d = tagged_deferred(i);
    // the stub reads the tag where the real inline storage keeps the closure's only capture
    let seen = unsafe { let mut dd = core::mem::ManuallyDrop::new(d); let t = *(dd.data.as_mut_ptr() as *const u8); core::mem::ManuallyDrop::into_inner(dd).call(); t };
    unsafe { assert!(seen == i && EXEC[i as usize] == 1 && EXEC_N == 1 && EXEC_ORDER[0] == i, "C15.deferred.tagged_call_contract_matches_real_call"); }
}
