// Child module of crate::strong.  L2 contracts over the L1 callee contracts:
//   C08  AtomicRc cell contracts (per operation, under interference on the link word)
//   C10  bulk constructors / NewRcIter / weak_many
//   C19  Eq / Ord / Hash of Rc and Snapshot
//   C11  tag accessors of Rc / Snapshot against the Tagged contracts
//   C01/C04 owner ledger: every way an owner is created or consumed issues exactly the L1 calls
//           its share requires.
#![allow(dead_code, unused_imports, static_mut_refs, unused_variables, unused_mut)]
use super::*;
use crate::utils::verif_rg::peek;
include!("common_l2.rs");

pub(crate) static mut DROPS: u32 = 0;
#[derive(PartialEq, Eq, PartialOrd, Ord, Hash)]
pub(crate) struct N { pub v: u8 }
impl Drop for N { fn drop(&mut self) { unsafe { DROPS += 1; } } }
unsafe impl RcObject for N { fn pop_edges(&mut self, _out: &mut Vec<Rc<Self>>) {} }

pub(crate) unsafe fn setup() -> (*mut RcInner<N>, *mut RcInner<N>) {
    let a = RcInner::alloc(N { v: kani::any() }, 5);
    let b = RcInner::alloc(N { v: kani::any() }, 5);
    OBJS = [a as usize, b as usize];
    kani::assume(OBJS[0] & !PM == 0 && OBJS[1] & !PM == 0);   // A-ADDR
    EPOCH = kani::any();
    kani::assume(EPOCH < (1usize << 62));
    (a, b)
}
fn mk_cell(init: usize) -> AtomicRc<N> { AtomicRc { link: Atomic::new(unword(init)), _marker: PhantomData } }
fn stamped(w: usize) -> usize { if addr_of(w) == 0 { w } else { (w & PM) | ((unsafe { EPOCH } % 16) << STAMP_SHIFT) } }
fn guard() -> Guard { unsafe { crate::ebr_impl::unprotected() } }

macro_rules! l2_harness {
    ($(#[$m:meta])* fn $name:ident() $body:block) => {
        #[kani::proof]
        #[kani::stub(atomic::Atomic::load, l_load)]
        #[kani::stub(atomic::Atomic::store, l_store)]
        #[kani::stub(atomic::Atomic::swap, l_swap)]
        #[kani::stub(atomic::Atomic::compare_exchange, l_cas)]
        #[kani::stub(atomic::Atomic::compare_exchange_weak, l_cas_weak)]
        #[kani::stub(crate::ebr_impl::global_epoch, k_global_epoch)]
        #[kani::stub(RcInner::increment_strong, k_increment_strong)]
        #[kani::stub(RcInner::is_not_destructed, k_is_not_destructed)]
        #[kani::stub(RcInner::decrement_strong, k_decrement_strong)]
        #[kani::stub(RcInner::increment_weak, k_increment_weak)]
        #[kani::stub(RcInner::decrement_weak, k_decrement_weak)]
        #[kani::stub(crate::ebr_impl::internal::Local::unpin, crate::ebr_impl::internal::verif_cut::s_unpin_unreachable)]
        $(#[$m])*
        fn $name() { #[allow(unused_unsafe)] unsafe { $body } }
    };
}

// ================================================================================================
// C08 — AtomicRc cell contracts
// ================================================================================================

unsafe fn cas_contract(weak: bool) {
    setup();
    let g = guard();
    let cell = mk_cell(any_word());
    CELL = &cell.link as *const _ as usize;
    let exp_w = any_word();
    let des_w = any_word();
    let expected = Snapshot::from_raw(unword(exp_w), &g);
    let desired: Rc<N> = Rc::from_raw(unword(des_w));
    CELL_BUDGET = cell_budget();
    SPURIOUS_BUDGET = if weak { 1 } else { 0 };
    let r = if weak { cell.compare_exchange_weak(expected, desired, Ordering::SeqCst, Ordering::SeqCst, &g) }
            else { cell.compare_exchange(expected, desired, Ordering::SeqCst, Ordering::SeqCst, &g) };
    match r {
        Ok(prev) => {
            assert!(WRITES == 1, "C08.cas.ok_exactly_one_write");
            assert!(same_ptr_tag(SEEN_AT_WRITE, exp_w), "C08.cas.ok_only_if_cell_ptr_eq_expected");
            assert!(same_ptr_tag(word(prev.ptr), SEEN_AT_WRITE), "C08.cas.ok_returns_previous_content");
            assert!(WRITTEN == stamped(des_w), "C08.cas.ok_installs_desired_tag_exact_timestamped");
            core::mem::forget(prev);
        }
        Err(e) => {
            assert!(WRITES == 0, "C08.cas.err_no_write");
            assert!(word(e.desired.ptr) == des_w, "C08.cas.err_returns_desired_untouched");
            assert!(word(e.current.ptr) == SEEN, "C08.cas.err_current_is_value_read_from_cell");
            if !weak { assert!(!same_ptr_tag(SEEN, exp_w), "C08.cas.err_only_if_not_ptr_eq_timestamp_never_fails"); }
            core::mem::forget(e.desired);
        }
    }
    assert!(no_l1_calls(), "C08.cas.ownership_moves_without_count_change");
    kani::cover!(WRITES == 1 && CELL_BUDGET == 0, "cover.cas.success_after_interference");
    kani::cover!(WRITES == 1 && ACCESSES >= 2, "cover.cas.retry_on_timestamp_only_difference");
    kani::cover!(WRITES == 0, "cover.cas.failure");
    core::mem::forget(cell);
}
l2_harness! {
/// compare_exchange: succeeds exactly when the cell's (pointer, tag) equals expected's, whatever the
/// timestamps; success returns the previous content and consumes desired; failure returns desired
/// untouched plus a value actually read from the cell that is not ptr_eq to expected.
#[kani::unwind(7)]
fn c08_compare_exchange() { cas_contract(false); }}
l2_harness! {
/// compare_exchange_weak: same, except that it may also fail spuriously.
#[kani::unwind(8)]
fn c08_compare_exchange_weak() { cas_contract(true); }}

l2_harness! {
/// compare_exchange_tag: writes expected's pointer with the truncated tag, timestamped.
#[kani::unwind(7)]
fn c08_compare_exchange_tag() {
    setup();
    let g = guard();
    let cell = mk_cell(any_word());
    CELL = &cell.link as *const _ as usize;
    let exp_w = any_word();
    let tag: usize = kani::any();
    let expected = Snapshot::from_raw(unword(exp_w), &g);
    CELL_BUDGET = cell_budget();
    let want = stamped((exp_w & !TAGM) | (tag & TAGM));
    match cell.compare_exchange_tag(expected, tag, Ordering::SeqCst, Ordering::SeqCst, &g) {
        Ok(cur) => {
            assert!(WRITES == 1, "C08.cas_tag.ok_exactly_one_write");
            assert!(same_ptr_tag(SEEN_AT_WRITE, exp_w), "C08.cas_tag.ok_only_if_cell_ptr_eq_expected");
            assert!(same_ptr_tag(WRITTEN, want) && (addr_of(exp_w) == 0 || stamp_of(WRITTEN) == EPOCH % 16), "C08.cas_tag.ok_writes_pointer_with_truncated_tag");
            assert!(addr_of(WRITTEN) == addr_of(SEEN_AT_WRITE), "C08.cas_tag.pointer_preserved");
            assert!(word(cur.ptr) == SEEN_AT_WRITE, "C08.cas_tag.ok_returns_previous_content");
        }
        Err(e) => {
            assert!(WRITES == 0, "C08.cas_tag.err_no_write");
            assert!(!same_ptr_tag(SEEN, exp_w), "C08.cas_tag.err_only_if_not_ptr_eq");
            assert!(word(e.current.ptr) == SEEN, "C08.cas_tag.err_current_is_value_read");
            assert!(same_ptr_tag(word(e.desired.ptr), want), "C08.cas_tag.err_desired_is_expected_with_tag");
        }
    }
    assert!(no_l1_calls(), "C08.cas_tag.no_count_change");
    kani::cover!(WRITES == 1 && ACCESSES >= 2, "cover.cas_tag.retry");
    kani::cover!(WRITES == 0, "cover.cas_tag.failure");
    core::mem::forget(cell);
}}

l2_harness! {
/// load: returns exactly a value the cell held during the call; writes nothing; no count change.
fn c08_load() {
    setup();
    let g = guard();
    let cell = mk_cell(any_word());
    CELL = &cell.link as *const _ as usize;
    CELL_BUDGET = cell_budget();
    let s = cell.load(Ordering::SeqCst, &g);
    assert!(word(s.ptr) == SEEN && ACCESSES == 1, "C08.load.returns_value_read_by_single_access");
    assert!(WRITES == 0 && no_l1_calls(), "C08.load.no_write_no_count_change");
    core::mem::forget(cell);
}}

l2_harness! {
/// store: one swap installing ptr (tag exact, timestamped); exactly one decrement of the OLD
/// content with the caller's guard iff it was non-null; nothing on the new pointer.
fn c08_store() {
    setup();
    let g = guard();
    let cell = mk_cell(any_word());
    CELL = &cell.link as *const _ as usize;
    let new_w = any_word();
    CELL_BUDGET = cell_budget();
    cell.store(Rc::from_raw(unword(new_w)), Ordering::SeqCst, &g);
    assert!(WRITES == 1 && ACCESSES == 1, "C08.store.single_rmw");
    assert!(WRITTEN == stamped(new_w), "C08.store.installs_ptr_tag_exact_timestamped");
    let old = SEEN_AT_WRITE;
    if addr_of(old) != 0 {
        assert!(DEC_S == 1 && DEC_S_COUNT == 1 && DEC_S_PTR == addr_of(old) && DEC_S_GUARDED, "C08.store.releases_exactly_old_content");
    } else {
        assert!(DEC_S == 0, "C08.store.null_old_content_releases_nothing");
    }
    assert!(INC_S == 0 && INC_W == 0 && DEC_W == 0, "C08.store.new_pointer_moves_without_count_change");
    kani::cover!(addr_of(old) != 0 && addr_of(old) == addr_of(new_w), "cover.store.same_object");
    core::mem::forget(cell);
}}

l2_harness! {
/// swap: one RMW; returns the previous content as an Rc; installs new; no count change.
fn c08_swap() {
    setup();
    let cell = mk_cell(any_word());
    CELL = &cell.link as *const _ as usize;
    let new_w = any_word();
    CELL_BUDGET = cell_budget();
    let prev = cell.swap(Rc::from_raw(unword(new_w)), Ordering::SeqCst);
    assert!(WRITES == 1 && ACCESSES == 1, "C08.swap.single_rmw");
    assert!(WRITTEN == stamped(new_w), "C08.swap.installs_new_tag_exact_timestamped");
    assert!(word(prev.ptr) == SEEN_AT_WRITE, "C08.swap.returns_previous_content");
    assert!(no_l1_calls(), "C08.swap.ownership_moves_without_count_change");
    core::mem::forget(prev);
    core::mem::forget(cell);
}}

l2_harness! {
/// take / drop / From<Rc> / From<&Rc> / new / null / default.
fn c08_take_drop_from() {
    let (a, _b) = setup();
    let w = any_word();
    let mut cell = mk_cell(w);
    let t = cell.take();
    assert!(word(t.ptr) == w, "C08.take.returns_content");
    assert!(word(*cell.link.get_mut()) == 0, "C08.take.leaves_null");
    assert!(no_l1_calls(), "C08.take.no_count_change");
    core::mem::forget(t);
    drop(cell);
    assert!(no_l1_calls(), "C04.atomicrc_drop.null_releases_nothing");
    // drop of a non-empty cell releases exactly its share
    let w2 = any_word();
    let cell2 = mk_cell(w2);
    drop(cell2);
    if addr_of(w2) != 0 {
        assert!(DEC_S == 1 && DEC_S_COUNT == 1 && DEC_S_PTR == addr_of(w2) && !DEC_S_GUARDED, "C04.atomicrc_drop.releases_exactly_its_share");
    } else { assert!(DEC_S == 0, "C04.atomicrc_drop.tagged_null_releases_nothing"); }
    assert!(INC_S == 0 && INC_W == 0 && DEC_W == 0, "C04.atomicrc_drop.nothing_else");
    DEC_S = 0; DEC_S_COUNT = 0;
    // From<Rc>: moves the share in, bit-identical
    let w3 = any_word();
    let mut c3: AtomicRc<N> = AtomicRc::from(Rc::from_raw(unword(w3)));
    assert!(word(*c3.link.get_mut()) == w3 && no_l1_calls(), "C08.from_rc.moves_share");
    core::mem::forget(c3);
    // From<&Rc>: a clone, i.e. exactly one increment
    let rc: Rc<N> = Rc::from_raw(unword(w3));
    let mut c4: AtomicRc<N> = AtomicRc::from(&rc);
    assert!(same_ptr_tag(word(*c4.link.get_mut()), w3), "C08.from_ref.same_pointer");
    assert!(INC_S == (addr_of(w3) != 0) as u32 && DEC_S == 0, "C08.from_ref.one_increment");
    core::mem::forget(c4); core::mem::forget(rc);
    let mut n: AtomicRc<N> = AtomicRc::null();
    let mut d: AtomicRc<N> = AtomicRc::default();
    assert!(word(*n.link.get_mut()) == 0 && word(*d.link.get_mut()) == 0, "C08.null.is_null");
    core::mem::forget(n); core::mem::forget(d);
    kani::cover!(addr_of(w2) != 0 && tag_of(w2) == 5, "cover.take_drop.tagged");
}}

l2_harness! {
/// AtomicRc::new(obj): a fresh object with exactly one strong owner (the cell).
fn c08_new() {
    let mut cell = AtomicRc::new(N { v: 9 });
    let w = word(*cell.link.get_mut());
    assert!(addr_of(w) != 0 && tag_of(w) == 0, "C08.new.nonnull_untagged");
    let (s, wk, d, k, _e) = peek(addr_of(w) as *const RcInner<N>);
    assert!(s == 1 && wk == 1 && !d && !k, "C08.new.exactly_one_owner");
    assert!(no_l1_calls(), "C08.new.no_count_calls");
    core::mem::forget(cell);
}}

// ================================================================================================
// C01 / C04 — owner ledger of Rc and Snapshot
// ================================================================================================
l2_harness! {
fn l2_rc_ledger() {
    setup();
    let g = guard();
    let w = any_word();
    let nonnull = addr_of(w) != 0;
    // clone: exactly one increment on the same object iff non-null; result bit-identical
    let rc: Rc<N> = Rc::from_raw(unword(w));
    let c = rc.clone();
    assert!(word(c.ptr) == w, "C01.rc_clone.same_pointer");
    assert!(INC_S == nonnull as u32 && (!nonnull || INC_S_PTR == addr_of(w)), "C01.rc_clone.exactly_one_increment");
    assert!(DEC_S == 0 && INC_W == 0 && DEC_W == 0, "C01.rc_clone.nothing_else");
    INC_S = 0;
    core::mem::forget(c);
    // snapshot / into_raw / from_raw: no count change
    let s = rc.snapshot(&g);
    assert!(word(s.ptr) == w && no_l1_calls(), "C01.rc_snapshot.no_count_change");
    // Snapshot::counted: exactly one increment iff non-null
    let r2 = s.counted();
    assert!(word(r2.ptr) == w && INC_S == nonnull as u32 && (!nonnull || INC_S_PTR == addr_of(w)) && DEC_S == 0, "C01.snapshot_counted.exactly_one_increment");
    INC_S = 0;
    core::mem::forget(r2);
    let r3: Rc<N> = Rc::from(s);
    assert!(word(r3.ptr) == w && INC_S == nonnull as u32, "C01.rc_from_snapshot.exactly_one_increment");
    INC_S = 0;
    core::mem::forget(r3);
    // downgrade: exactly one increment_weak(1) iff non-null; Weak refers to the receiver
    let wk = rc.downgrade();
    assert!(INC_W == nonnull as u32 && INC_W_COUNT == nonnull as u32 && (!nonnull || INC_W_PTR == addr_of(w)), "C03.rc_downgrade.exactly_one_weak_share");
    assert!(no_strong_calls(), "C03.rc_downgrade.strong_untouched");
    assert!(weak_word(&wk) == w, "C03.rc_downgrade.refers_to_receiver");
    INC_W = 0; INC_W_COUNT = 0;
    core::mem::forget(wk);
    let raw = rc.into_raw();
    assert!(word(raw) == w && no_l1_calls(), "C01.rc_into_raw.no_count_change");
    // finalize(guard): exactly one decrement with the guard, and no second one from Drop
    let rc: Rc<N> = Rc::from_raw(raw);
    rc.finalize(&g);
    assert!(DEC_S == nonnull as u32 && DEC_S_COUNT == nonnull as u32 && (!nonnull || (DEC_S_PTR == addr_of(w) && DEC_S_GUARDED)), "C04.rc_finalize.releases_exactly_one_share");
    DEC_S = 0; DEC_S_COUNT = 0;
    // drop: exactly one decrement (no guard)
    let rc: Rc<N> = Rc::from_raw(unword(w));
    drop(rc);
    assert!(DEC_S == nonnull as u32 && DEC_S_COUNT == nonnull as u32 && (!nonnull || (DEC_S_PTR == addr_of(w) && !DEC_S_GUARDED)), "C04.rc_drop.releases_exactly_one_share");
    assert!(INC_S == 0 && INC_W == 0 && DEC_W == 0, "C04.rc_drop.nothing_else");
    // null / default
    let n: Rc<N> = Rc::null();
    let d: Rc<N> = Rc::default();
    assert!(word(n.ptr) == 0 && word(d.ptr) == 0, "C01.rc_null.is_null");
    kani::cover!(nonnull && tag_of(w) == 3 && stamp_of(w) == 11, "cover.rc_ledger.tagged_stamped");
    kani::cover!(!nonnull && tag_of(w) != 0, "cover.rc_ledger.tagged_null");
}}
fn weak_word(w: &Weak<N>) -> usize { unsafe { core::mem::transmute_copy(w) } }
fn no_strong_calls() -> bool { unsafe { INC_S == 0 && DEC_S == 0 && NOTD == 0 } }

l2_harness! {
/// Rc::new: fresh object, exactly one owner; deref reads the live object.
fn l2_rc_new_deref() {
    let v: u8 = kani::any();
    let rc = Rc::new(N { v });
    let w = word(rc.ptr);
    assert!(addr_of(w) != 0 && tag_of(w) == 0 && stamp_of(w) == 0, "C01.rc_new.nonnull_plain");
    let (s, wk, d, k, _e) = peek(addr_of(w) as *const RcInner<N>);
    assert!(s == 1 && wk == 1 && !d && !k, "C01.rc_new.exactly_one_owner");
    assert!(rc.as_ref().unwrap().v == v && rc.deref().v == v, "C01.rc_deref.reads_live_object");
    // tagged + timestamped views dereference to the same object
    let t = Rc::<N>::from_raw(rc.ptr.with_tag(kani::any()).with_high_tag(kani::any()));
    assert!(t.as_ref().unwrap() as *const N == rc.as_ref().unwrap() as *const N, "C11.rc_as_ref.ignores_tag_and_timestamp");
    let g = guard();
    let sn = t.snapshot(&g);
    assert!(sn.as_ref().unwrap() as *const N == rc.as_ref().unwrap() as *const N && sn.deref().v == v, "C11.snapshot_as_ref.ignores_tag_and_timestamp");
    assert!(no_l1_calls() && DROPS == 0, "C01.rc_new.no_count_calls");
    core::mem::forget(t); core::mem::forget(rc);
}}

// ================================================================================================
// C10 — bulk constructors, NewRcIter, weak_many
// ================================================================================================
macro_rules! c10_new_many {
    ($name:ident, $n:expr) => {
        l2_harness! {
        #[kani::unwind(10)]
        fn $name() {
            let arr: [Rc<N>; $n] = Rc::new_many::<$n>(N { v: 4 });
            if let Some(first) = arr.first() {
                let w0 = word(first.ptr);
                assert!(addr_of(w0) != 0 && tag_of(w0) == 0, "C10.new_many.nonnull");
                let mut i = 0;
                while i < arr.len() { assert!(word(arr[i].ptr) == w0, "C10.new_many.all_same_object"); i += 1; }
                let (s, wk, d, k, _e) = peek(addr_of(w0) as *const RcInner<N>);
                assert!(s == $n && wk == 1 && !d && !k, "C10.new_many.exactly_n_owners");
                assert!(DROPS == 0 && no_l1_calls(), "C10.new_many.no_count_calls");
            } else {
                // zero owners: the object must not be left behind with nobody to release it
                assert!(DROPS == 1 || DEC_S == 1, "C10.new_many.zero_owners_object_released");
            }
            core::mem::forget(arr);
        }}
    };
}
c10_new_many!(c10_new_many_0, 0);
c10_new_many!(c10_new_many_1, 1);
c10_new_many!(c10_new_many_2, 2);
c10_new_many!(c10_new_many_3, 3);
c10_new_many!(c10_new_many_8, 8);

l2_harness! {
/// new_many_iter(obj, count): one object whose count is `count`, all of it still unyielded.
fn c10_new_many_iter() {
    let count: usize = kani::any();
    kani::assume(count < (1 << 28));       // A-RANGE
    let it = Rc::new_many_iter(N { v: 4 }, count);
    if count == 0 {
        assert!(DROPS == 1 || DEC_S == 1, "C10.new_many_iter.zero_owners_object_released");
        assert!(it.remain == 0, "C10.new_many_iter.zero_yields_nothing");
    } else {
        let w = word(it.ptr);
        assert!(addr_of(w) != 0 && tag_of(w) == 0, "C10.new_many_iter.nonnull");
        let (s, wk, d, k, _e) = peek(addr_of(w) as *const RcInner<N>);
        assert!(s as usize == count && it.remain == count && wk == 1 && !d && !k, "C10.new_many_iter.count_owners_all_unyielded");
        assert!(DROPS == 0 && no_l1_calls(), "C10.new_many_iter.no_count_calls");
    }
    kani::cover!(count == 0, "cover.new_many_iter.zero");
    kani::cover!(count == 1, "cover.new_many_iter.one");
    kani::cover!(count > 1000, "cover.new_many_iter.many");
    core::mem::forget(it);
}}

l2_harness! {
/// new_many_iter over EVERY count (C10: "for every N/count"), partial correctness: the constructor may
/// refuse a count the strong-count field cannot represent (by panicking), but it never RETURNS an
/// object whose count differs from the number of owners it is about to hand out (defect F13: the
/// count was silently truncated, `count as u32` into a 29-bit field).
fn c10_new_many_iter_any_count_partial() {
    let count: usize = kani::any();
    kani::assume(count >= 1);
    let it = Rc::new_many_iter(N { v: 4 }, count);
    let w = word(it.ptr);
    let (s, wk, d, k, _e) = peek(addr_of(w) as *const RcInner<N>);
    assert!(s as usize == count && it.remain == count && wk == 1 && !d && !k, "C10.new_many_iter.never_returns_fewer_owners_than_it_hands_out");
    kani::cover!(count > (1 << 28), "cover.new_many_iter.count_beyond_a_range_accepted");
    core::mem::forget(it);
}}

l2_harness! {
/// NewRcIter as a data structure: yielded + remain is conserved by next; drop/abort release exactly
/// the unyielded remainder in one decrement (any remain => every prefix, by induction on calls).
fn c10_iter_next_drop_abort() {
    let (a, _b) = setup();
    let remain: usize = kani::any();
    kani::assume(remain < (1 << 28));      // A-RANGE
    let w = a as usize;
    let mut it: NewRcIter<N> = NewRcIter { remain, ptr: unword(w) };
    match it.next() {
        None => { assert!(remain == 0 && it.remain == 0, "C10.iter_next.none_only_when_exhausted"); }
        Some(rc) => {
            assert!(remain > 0 && it.remain == remain - 1, "C10.iter_next.yields_one_share");
            assert!(word(rc.ptr) == w && word(it.ptr) == w, "C10.iter_next.same_object");
            core::mem::forget(rc);
        }
    }
    assert!(no_l1_calls(), "C10.iter_next.no_count_change");
    let left = it.remain;
    if kani::any() {
        drop(it);
        assert!(DEC_S == (left > 0) as u32 && DEC_S_COUNT as usize == left && (left == 0 || (DEC_S_PTR == w && !DEC_S_GUARDED)), "C10.iter_drop.releases_exactly_remainder");
    } else {
        let g = guard();
        it.abort(&g);
        assert!(DEC_S == (left > 0) as u32 && DEC_S_COUNT as usize == left && (left == 0 || (DEC_S_PTR == w && DEC_S_GUARDED)), "C10.iter_abort.releases_exactly_remainder_once");
    }
    assert!(INC_S == 0 && INC_W == 0 && DEC_W == 0, "C10.iter_release.nothing_else");
    kani::cover!(left == 0 && remain == 1, "cover.iter.last_share_yielded");
    kani::cover!(left > 5, "cover.iter.remainder");
}}

macro_rules! c10_weak_many {
    ($name:ident, $n:expr) => {
        l2_harness! {
        #[kani::unwind(10)]
        fn $name() {
            setup();
            let w = any_word();
            let nonnull = addr_of(w) != 0;
            let rc: Rc<N> = Rc::from_raw(unword(w));
            let ws: [Weak<N>; $n] = rc.weak_many::<$n>();
            assert!(INC_W == nonnull as u32 && (!nonnull || (INC_W_COUNT == $n && INC_W_PTR == addr_of(w))), "C10.weak_many.adds_exactly_n_weak_shares");
            assert!(no_strong_calls() && DEC_W == 0, "C10.weak_many.nothing_else");
            let mut i = 0;
            while i < $n {
                assert!(same_ptr_tag(weak_word(&ws[i]), w), "C10.weak_many.every_result_refers_to_receiver");
                i += 1;
            }
            kani::cover!(nonnull && tag_of(w) == 2, "cover.weak_many.tagged_receiver");
            core::mem::forget(ws); core::mem::forget(rc);
        }}
    };
}
c10_weak_many!(c10_weak_many_0, 0);
c10_weak_many!(c10_weak_many_1, 1);
c10_weak_many!(c10_weak_many_3, 3);
c10_weak_many!(c10_weak_many_8, 8);

// ================================================================================================
// C19 — Eq / Ord / Hash follow the referent
// ================================================================================================
pub(crate) struct RecHasher { pub buf: [u8; 24], pub n: usize }
impl Hasher for RecHasher {
    fn finish(&self) -> u64 { self.n as u64 }
    fn write(&mut self, bytes: &[u8]) {
        let mut i = 0;
        while i < bytes.len() { if self.n < 24 { self.buf[self.n] = bytes[i]; } self.n += 1; i += 1; }
    }
}
/// Oracle: the referent as Option<&N>, from the harness's own word -> object map (not via as_ref).
unsafe fn referent<'a>(w: usize) -> Option<&'a N> {
    let a = addr_of(w);
    if a == 0 { None } else { Some((*(a as *const RcInner<N>)).data()) }
}
fn hashed<H: Hash>(x: &H) -> ([u8; 24], usize) { let mut h = RecHasher { buf: [0; 24], n: 0 }; x.hash(&mut h); (h.buf, h.n) }

macro_rules! c19_for {
    ($name:ident, $mk:expr) => {
        l2_harness! {
        #[kani::unwind(26)]
        fn $name() {
            setup();
            let g = guard();
            let (wa, wb, wc) = (any_word(), any_word(), any_word());
            let (pa, pb, pc) = ($mk(wa, &g), $mk(wb, &g), $mk(wc, &g));
            let (oa, ob, oc) = (referent(wa), referent(wb), referent(wc));
            assert!((pa == pb) == (oa == ob), "C19.eq.agrees_with_referent");
            assert!((pa != pb) == (oa != ob), "C19.ne.agrees_with_referent");
            assert!(pa.partial_cmp(&pb) == oa.partial_cmp(&ob), "C19.partial_cmp.agrees_with_referent");
            assert!(pa.cmp(&pb) == oa.cmp(&ob), "C19.cmp.agrees_with_referent");
            assert!(hashed(&pa) == hashed(&oa), "C19.hash.same_stream_as_referent");
            assert!((pa < pb) == (oa < ob) && (pa <= pb) == (oa <= ob) && (pa > pb) == (oa > ob) && (pa >= pb) == (oa >= ob), "C19.operators.agree_with_referent");
            // null is distinct and smallest
            if addr_of(wa) == 0 && addr_of(wb) != 0 {
                assert!(pa != pb && pa.cmp(&pb) == core::cmp::Ordering::Less && pb.cmp(&pa) == core::cmp::Ordering::Greater, "C19.null.distinct_and_smallest");
            }
            if addr_of(wa) == 0 && addr_of(wb) == 0 { assert!(pa == pb && pa.cmp(&pb) == core::cmp::Ordering::Equal, "C19.null.equals_only_null"); }
            // identity: ptr_eq is object + tag, independent of contents and timestamps
            assert!(pa.ptr_eq(&pb) == same_ptr_tag(wa, wb), "C19.ptr_eq.identity_plus_tag");
            // laws
            assert!(pa == pa && pa.cmp(&pa) == core::cmp::Ordering::Equal, "C19.law.reflexive");
            assert!(pa.cmp(&pb) == pb.cmp(&pa).reverse(), "C19.law.antisymmetric");
            assert!(pa.partial_cmp(&pb) == Some(pa.cmp(&pb)), "C19.law.partial_cmp_consistent_with_cmp");
            assert!((pa == pb) == (pa.cmp(&pb) == core::cmp::Ordering::Equal), "C19.law.eq_consistent_with_cmp");
            if pa <= pb && pb <= pc { assert!(pa <= pc, "C19.law.transitive"); }
            if pa == pb { assert!(hashed(&pa) == hashed(&pb), "C19.law.equal_implies_equal_hash"); }
            assert!(no_l1_calls(), "C19.no_count_change");
            kani::cover!(addr_of(wa) != 0 && addr_of(wa) != addr_of(wb) && addr_of(wb) != 0 && pa == pb, "cover.c19.distinct_objects_equal_contents");
            kani::cover!(addr_of(wa) == addr_of(wb) && wa != wb && addr_of(wa) != 0, "cover.c19.same_object_other_tag_or_stamp");
            kani::cover!(pa < pb && pb < pc, "cover.c19.strict_chain");
            core::mem::forget(pa); core::mem::forget(pb); core::mem::forget(pc);
        }}
    };
}
fn mk_rc(w: usize, _g: &Guard) -> Rc<N> { Rc::from_raw(unword(w)) }
fn mk_snap<'g>(w: usize, g: &'g Guard) -> Snapshot<'g, N> { Snapshot::from_raw(unword(w), g) }
c19_for!(c19_rc, mk_rc);
c19_for!(c19_snapshot, mk_snap_ref);
/// Snapshot::ptr_eq takes `self` by value; adapt to the by-reference shape used above.
pub(crate) struct SnapRef<'g>(Snapshot<'g, N>);
impl<'g> PartialEq for SnapRef<'g> { fn eq(&self, o: &Self) -> bool { self.0 == o.0 } fn ne(&self, o: &Self) -> bool { self.0 != o.0 } }
impl<'g> Eq for SnapRef<'g> {}
impl<'g> PartialOrd for SnapRef<'g> { fn partial_cmp(&self, o: &Self) -> Option<core::cmp::Ordering> { self.0.partial_cmp(&o.0) } }
impl<'g> Ord for SnapRef<'g> { fn cmp(&self, o: &Self) -> core::cmp::Ordering { self.0.cmp(&o.0) } }
impl<'g> Hash for SnapRef<'g> { fn hash<H: Hasher>(&self, s: &mut H) { self.0.hash(s) } }
impl<'g> SnapRef<'g> { fn ptr_eq(&self, o: &Self) -> bool { self.0.ptr_eq(o.0) } }
fn mk_snap_ref<'g>(w: usize, g: &'g Guard) -> SnapRef<'g> { SnapRef(Snapshot::from_raw(unword(w), g)) }

// ================================================================================================
// C11 — tag accessors of Rc / Snapshot (full usize domain; nothing is dereferenced)
// ================================================================================================
l2_harness! {
fn c11_rc_snapshot_tags() {
    let w: usize = kani::any();
    let t: usize = kani::any();
    let u: usize = kani::any();
    let g = guard();
    let rc: Rc<N> = Rc::from_raw(unword(w));
    assert!(rc.tag() == tag_of(w), "C11.rc.tag");
    assert!(rc.is_null() == (addr_of(w) == 0), "C11.rc.is_null_ignores_tag_and_timestamp");
    let other: Rc<N> = Rc::from_raw(unword(u));
    assert!(rc.ptr_eq(&other) == same_ptr_tag(w, u), "C11.rc.ptr_eq_ignores_timestamp");
    core::mem::forget(other);
    let r2 = rc.with_tag(t);
    assert!(word(r2.ptr) == (w & !TAGM) | (t & TAGM), "C11.rc.with_tag_truncates_keeps_address_and_timestamp");
    assert!(r2.tag() == t & TAGM, "C11.rc.tag_roundtrip");
    core::mem::forget(r2);
    let s: Snapshot<'_, N> = Snapshot::from_raw(unword(w), &g);
    assert!(s.tag() == tag_of(w) && s.is_null() == (addr_of(w) == 0), "C11.snapshot.tag_is_null");
    assert!(s.ptr_eq(Snapshot::from_raw(unword(u), &g)) == same_ptr_tag(w, u), "C11.snapshot.ptr_eq_ignores_timestamp");
    assert!(word(s.with_tag(t).ptr) == (w & !TAGM) | (t & TAGM) && s.with_tag(t).tag() == t & TAGM, "C11.snapshot.with_tag");
    assert!(word(s.downgrade().ptr) == w, "C11.snapshot.downgrade_keeps_word");
    assert!(Snapshot::<N>::null().is_null() && Snapshot::<N>::default().is_null() && Snapshot::<N>::null().with_tag(t).is_null(), "C11.snapshot.null");
    if addr_of(w) == 0 { assert!(rc_as_ref_is_none(w) , "C11.rc.tagged_timestamped_null_as_ref_none"); }
    assert!(no_l1_calls(), "C11.accessors.no_count_change");
}}
fn rc_as_ref_is_none(w: usize) -> bool {
    let rc: Rc<N> = Rc::from_raw(unword(w));
    let g = guard();
    let r = rc.as_ref().is_none() && rc.snapshot(&g).as_ref().is_none();
    core::mem::forget(rc);
    r
}

/// {:p} of Rc / Snapshot / AtomicRc prints the address only (tag and timestamp invisible).
struct Sink { buf: [u8; 24], n: usize }
impl core::fmt::Write for Sink {
    fn write_str(&mut self, s: &str) -> core::fmt::Result {
        let b = s.as_bytes();
        let mut i = 0;
        while i < b.len() { if self.n < 24 { self.buf[self.n] = b[i]; } self.n += 1; i += 1; }
        Ok(())
    }
}
fn fmt_p<P: core::fmt::Pointer>(p: &P) -> ([u8; 24], usize) {
    use core::fmt::Write;
    let mut s = Sink { buf: [0; 24], n: 0 };
    let _ = write!(s, "{:p}", *p);
    (s.buf, s.n)
}
l2_harness! {
#[kani::unwind(26)]
fn c11_rc_pointer_fmt() {
    let a: usize = kani::any();
    kani::assume(a < 0x1_0000 && a & 7 == 0);                  // small addresses keep the digit loop short; nothing is dereferenced
    let t: usize = kani::any();
    let h: usize = kani::any();
    kani::assume(t <= TAGM && h < 16);
    let w = a | t | (h << STAMP_SHIFT);
    let g = guard();
    let (plain, dressed): (Rc<N>, Rc<N>) = (Rc::from_raw(unword(a)), Rc::from_raw(unword(w)));
    assert!(fmt_p(&plain) == fmt_p(&dressed), "C11.fmt.rc_pointer_formatting_ignores_tag_and_timestamp");
    assert!(fmt_p(&plain.snapshot(&g)) == fmt_p(&dressed.snapshot(&g)) && fmt_p(&plain) == fmt_p(&dressed.snapshot(&g)), "C11.fmt.snapshot_pointer_formatting_ignores_tag_and_timestamp");
    core::mem::forget(plain); core::mem::forget(dressed);
}}


/// C19 for a referent whose PartialEq is NOT reflexive (a NaN-like value): `==` / `partial_cmp` of Rc
/// and Snapshot must still be exactly those of Option<&T> - no pointer-identity shortcut.
pub(crate) struct Fl { pub v: u8 }
impl PartialEq for Fl { fn eq(&self, o: &Self) -> bool { self.v != 255 && o.v != 255 && self.v == o.v } }
impl PartialOrd for Fl { fn partial_cmp(&self, o: &Self) -> Option<core::cmp::Ordering> { if self.v == 255 || o.v == 255 { None } else { self.v.partial_cmp(&o.v) } } }
unsafe impl RcObject for Fl { fn pop_edges(&mut self, _out: &mut Vec<Rc<Self>>) {} }
l2_harness! {
fn c19_partial_eq_not_reflexive() {
    let a = RcInner::alloc(Fl { v: kani::any() }, 5);
    let b = RcInner::alloc(Fl { v: kani::any() }, 5);
    OBJS = [a as usize, b as usize];
    kani::assume(OBJS[0] & !PM == 0 && OBJS[1] & !PM == 0);
    let g = guard();
    let (wa, wb) = (any_word(), any_word());
    let refer = |w: usize| -> Option<&Fl> { let x = addr_of(w); if x == 0 { None } else { Some((*(x as *const RcInner<Fl>)).data()) } };
    let (oa, ob) = (refer(wa), refer(wb));
    let (ra, rb): (Rc<Fl>, Rc<Fl>) = (Rc::from_raw(unword(wa)), Rc::from_raw(unword(wb)));
    assert!((ra == rb) == (oa == ob) && (ra != rb) == (oa != ob), "C19.eq.agrees_with_referent_even_when_not_reflexive");
    assert!(ra.partial_cmp(&rb) == oa.partial_cmp(&ob), "C19.partial_cmp.agrees_with_referent_even_when_not_reflexive");
    let (sa, sb): (Snapshot<'_, Fl>, Snapshot<'_, Fl>) = (Snapshot::from_raw(unword(wa), &g), Snapshot::from_raw(unword(wb), &g));
    assert!((sa == sb) == (oa == ob) && sa.partial_cmp(&sb) == oa.partial_cmp(&ob), "C19.snapshot_eq.agrees_with_referent_even_when_not_reflexive");
    kani::cover!(wa == wb && addr_of(wa) != 0 && !(ra == rb), "cover.c19.same_pointer_not_equal");
    core::mem::forget(ra); core::mem::forget(rb);
}}
