// Child module of crate::ebr_impl::sync::list.  C18 (sequential, bounded) and a raw list builder for
// the try_advance harnesses.
#![allow(dead_code, unused_imports, static_mut_refs, unused_variables, unused_mut)]
use super::*;

fn slot(a: &RawAtomic<Entry>) -> *mut usize { a as *const RawAtomic<Entry> as *mut usize }   // RawAtomic<T> = Atomic<Tagged<T>> = one word
/// Writes head -> e[0] -> e[1] -> ... -> null directly (no CAS loops), optionally marking entries
/// as logically deleted (tag 1 on their `next`).
pub(crate) unsafe fn link_raw<T, C: IsElement<T>>(list: &List<T, C>, entries: &[&Entry], deleted: &[bool]) {
    let mut next: usize = 0;
    let mut i = entries.len();
    while i > 0 {
        i -= 1;
        *slot(&entries[i].next) = next | (deleted[i] as usize);
        next = entries[i] as *const Entry as usize;
    }
    *slot(&list.head) = next;
}
pub(crate) unsafe fn head_word<T, C: IsElement<T>>(list: &List<T, C>) -> usize { *slot(&list.head) }
pub(crate) unsafe fn next_word(e: &Entry) -> usize { *slot(&e.next) }

// ================================================================================================
// C18 — sequential traversal / unlink-once contract on the REAL list (bounded: <= 3 entries)
// ================================================================================================
pub(crate) struct E { entry: Entry, id: u8 }
pub(crate) struct EH;
static mut FINALIZED: [u32; 4] = [0; 4];
impl IsElement<E> for EH {
    fn entry_of(e: &E) -> &Entry { &e.entry }
    unsafe fn element_of(entry: &Entry) -> &E { &*((entry as *const Entry as usize - memoffset::offset_of!(E, entry)) as *const E) }
    unsafe fn finalize(entry: &Entry, _guard: &Guard) { FINALIZED[Self::element_of(entry).id as usize] += 1; }
}
fn mk(id: u8) -> E { E { entry: Entry::default(), id } }

#[kani::proof]
#[kani::unwind(6)]
fn c18_iter_sequential() {
    unsafe {
        let list = core::mem::ManuallyDrop::new(List::<E, EH>::new());
        let es = [mk(0), mk(1), mk(2)];
        kani::assume((&es[0].entry as *const Entry as usize) & 7 == 0);      // alignment (Rust guarantee)
        let n: usize = kani::any();
        kani::assume(n <= 3);
        let del = [kani::any::<bool>(), kani::any::<bool>(), kani::any::<bool>()];
        if n == 0 { link_raw(&*list, &[], &[]); }
        else if n == 1 { link_raw(&*list, &[&es[0].entry], &del[..1]); }
        else if n == 2 { link_raw(&*list, &[&es[0].entry, &es[1].entry], &del[..2]); }
        else { link_raw(&*list, &[&es[0].entry, &es[1].entry, &es[2].entry], &del); }
        let g = core::mem::ManuallyDrop::new(unprotected());
        let mut visited = [9u8; 4];
        let mut nv = 0;
        let mut stalled = false;
        let mut it = list.iter(&g);
        let mut steps = 0;
        while steps < 4 {
            match it.next() {
                None => break,
                Some(Ok(e)) => { visited[nv] = e.id; nv += 1; }
                Some(Err(IterError::Stalled)) => { stalled = true; break; }
            }
            steps += 1;
        }
        assert!(!stalled, "C18.iter.no_stall_without_concurrent_modification");
        // every unmarked entry exactly once, in list order; no marked entry
        let mut expect = [9u8; 4];
        let mut ne = 0;
        let mut i = 0;
        while i < n { if !del[i] { expect[ne] = i as u8; ne += 1; } i += 1; }
        assert!(nv == ne && visited == expect, "C18.iter.visits_every_registered_unremoved_entry_once");
        // marked entries are unlinked and finalized exactly once; unmarked ones never
        i = 0;
        while i < 3 {
            assert!(FINALIZED[i] == (i < n && del[i]) as u32, "C18.iter.removed_entries_unlinked_and_finalized_exactly_once");
            i += 1;
        }
        // the list now contains exactly the unmarked entries
        let mut cur = head_word(&*list);
        i = 0;
        while i < ne {
            assert!(cur == &es[expect[i] as usize].entry as *const Entry as usize, "C18.iter.list_keeps_exactly_the_unremoved_entries");
            cur = next_word(&es[expect[i] as usize].entry);
            i += 1;
        }
        assert!(cur == 0, "C18.iter.list_ends_after_last_unremoved_entry");
        kani::cover!(n == 3 && del[0] && del[1] && !del[2], "cover.iter.two_leading_removed");
        kani::cover!(n == 3 && !del[0] && del[1] && del[2], "cover.iter.two_trailing_removed");
        kani::cover!(n == 3 && nv == 3, "cover.iter.none_removed");
    }
}

#[kani::proof]
#[kani::unwind(5)]
fn c18_insert_delete() {
    unsafe {
        let list = core::mem::ManuallyDrop::new(List::<E, EH>::new());
        let es = [mk(0), mk(1), mk(2)];
        kani::assume((&es[0].entry as *const Entry as usize) & 7 == 0);
        let g = core::mem::ManuallyDrop::new(unprotected());
        let n: usize = kani::any();
        kani::assume(n <= 2);
        if n == 1 { link_raw(&*list, &[&es[1].entry], &[false]); }
        if n == 2 { link_raw(&*list, &[&es[1].entry, &es[2].entry], &[false, kani::any()]); }
        let old_head = head_word(&*list);
        let old_next1 = next_word(&es[1].entry);
        list.insert(RawShared::from(&es[0] as *const E), &g);
        assert!(head_word(&*list) == &es[0].entry as *const Entry as usize, "C18.insert.new_entry_is_reachable_from_head");
        assert!(next_word(&es[0].entry) == old_head, "C18.insert.keeps_every_existing_entry_reachable");
        assert!(next_word(&es[1].entry) == old_next1, "C18.insert.existing_entries_untouched");
        // logical delete: only the mark bit of this entry
        let before = next_word(&es[0].entry);
        es[0].entry.delete(&g);
        assert!(next_word(&es[0].entry) == before | 1 && head_word(&*list) == &es[0].entry as *const Entry as usize, "C18.delete.sets_only_the_mark_of_this_entry");
        assert!(next_word(&es[1].entry) == old_next1 && FINALIZED[0] == 0, "C18.delete.frees_nothing_by_itself");
        kani::cover!(n == 2, "cover.insert.two_existing");
    }
}

// ================================================================================================
// C18 — Entry::delete under interference: the mark is set ATOMICALLY (no lost update)
// ================================================================================================
static mut DEL_SLOT: usize = 0;        // address of the entry's `next` word
static mut DEL_ENV_BUDGET: u32 = 0;
static mut DEL_ENV_LAST: usize = 0;    // the value the environment last wrote (or the initial one)
/// environment: a concurrent traversal unlinks this entry's removed successor, i.e. rewrites `next`
unsafe fn del_env(slot: *mut usize) {
    if slot as usize != DEL_SLOT || DEL_ENV_BUDGET == 0 || !kani::any::<bool>() { return; }
    DEL_ENV_BUDGET -= 1;
    let v: usize = kani::any();
    kani::assume(v & 7 == 0 && v & 1 == 0);           // another (unmarked) successor pointer
    kani::assume(*slot & 1 == 0);                      // traversals only CAS an unmarked predecessor
    *slot = v;
    DEL_ENV_LAST = v;
}
fn d_load<T: Copy>(a: &atomic::Atomic<T>, _o: core::sync::atomic::Ordering) -> T {
    unsafe { let s = a as *const atomic::Atomic<T> as *mut usize; del_env(s); core::mem::transmute_copy(&*s) }
}
fn d_store<T: Copy>(a: &atomic::Atomic<T>, v: T, _o: core::sync::atomic::Ordering) {
    unsafe { let s = a as *const atomic::Atomic<T> as *mut usize; del_env(s); *s = core::mem::transmute_copy(&v); }
}
fn d_fetch_or(a: &core::sync::atomic::AtomicUsize, v: usize, _o: core::sync::atomic::Ordering) -> usize {
    unsafe { let s = a as *const core::sync::atomic::AtomicUsize as *mut usize; del_env(s); let old = *s; *s = old | v; old }
}
#[kani::proof]
#[kani::stub(atomic::Atomic::load, d_load)]
#[kani::stub(atomic::Atomic::store, d_store)]
#[kani::stub(std::sync::atomic::Atomic::<usize>::fetch_or, d_fetch_or)]
fn c18_delete_is_atomic() {
    unsafe {
        let e = mk(0);
        let succ0: usize = kani::any();
        kani::assume(succ0 & 7 == 0);
        *slot(&e.entry.next) = succ0;
        DEL_SLOT = slot(&e.entry.next) as usize;
        DEL_ENV_LAST = succ0;
        DEL_ENV_BUDGET = 2;
        let g = core::mem::ManuallyDrop::new(unprotected());
        e.entry.delete(&g);
        // whatever the environment wrote last before my marking step survives, with the mark added
        assert!(next_word(&e.entry) == DEL_ENV_LAST | 1, "C18.delete.marks_atomically_no_lost_unlink");
        kani::cover!(DEL_ENV_BUDGET < 2, "cover.delete.interfered");
    }
}


/// thorough tier: the traversal contract on a registry of <= 4 entries
#[kani::proof]
#[kani::unwind(7)]
fn c18_iter_sequential_4() {
    unsafe {
        let list = core::mem::ManuallyDrop::new(List::<E, EH>::new());
        let es = [mk(0), mk(1), mk(2), mk(3)];
        kani::assume((&es[0].entry as *const Entry as usize) & 7 == 0);
        let del = [kani::any::<bool>(), kani::any::<bool>(), kani::any::<bool>(), kani::any::<bool>()];
        link_raw(&*list, &[&es[0].entry, &es[1].entry, &es[2].entry, &es[3].entry], &del);
        let g = core::mem::ManuallyDrop::new(unprotected());
        let mut visited = [9u8; 5];
        let mut nv = 0;
        let mut it = list.iter(&g);
        let mut steps = 0;
        while steps < 5 {
            match it.next() {
                None => break,
                Some(Ok(e)) => { visited[nv] = e.id; nv += 1; }
                Some(Err(IterError::Stalled)) => { assert!(false, "C18.iter4.no_stall_without_concurrent_modification"); }
            }
            steps += 1;
        }
        let mut expect = [9u8; 5];
        let mut ne = 0;
        let mut i = 0;
        while i < 4 { if !del[i] { expect[ne] = i as u8; ne += 1; } i += 1; }
        assert!(nv == ne && visited == expect, "C18.iter4.visits_every_registered_unremoved_entry_once");
        i = 0;
        while i < 4 { assert!(FINALIZED[i] == del[i] as u32, "C18.iter4.removed_entries_unlinked_and_finalized_exactly_once"); i += 1; }
        kani::cover!(del[0] && del[1] && del[2] && !del[3], "cover.iter4.three_leading_removed");
    }
}
