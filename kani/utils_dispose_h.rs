// Child module of crate::utils.  One-level contract of `dispose_general_node` (DESIGN 2.5):
//   (a) a chain node at depth 1023 — every recursive call returns through the depth >= 1024 branch,
//       so one run covers one full level of the cascade for symbolic stamps / epoch / child count;
//   (b) a leaf node at a fully symbolic depth (0, 1..1023, >= 1024).
// Serves C06 (immediate / skip / recent), C07 (depth bound), C02 (merged stamp, defer-only),
// C12.site (the decision taken is the window predicate), C05/C04 (DESTRUCTED before destruction).
#![allow(dead_code, unused_imports, static_mut_refs, unused_variables, unused_mut)]
use super::*;
use super::verif_state::old_enough;
use crate::{AtomicRc, Rc};

static mut EPOCH: usize = 0;
static mut PARENT: usize = 0;          // address of the node being disposed
static mut PARENT_WORD: usize = 0;     // address of its count word
static mut CHILD_WORD: usize = 0;      // address of the child's count word
static mut BUDGET: u32 = 0;
static mut POPS: u32 = 0;
static mut DROPS: u32 = 0;
static mut DROPPED_WHO: usize = 0;
static mut D_AT_POP: bool = false;     // parent's DESTRUCTED flag when pop_edges ran
static mut POP_BEFORE_DROP: bool = true;
static mut DEFERS: u32 = 0;
static mut DEFER_PTR: usize = 0;
static mut IN_DEFER: bool = false;
static mut DEALLOCS: u32 = 0;
static mut DEALLOC_PTR: usize = 0;
static mut DEALLOC_AFTER_DROP: bool = false;
static mut DEC_W: u32 = 0;
static mut DEC_W_PTR: usize = 0;
static mut DEC_W_GUARDED: bool = false;
static mut DEC_W_AFTER_DROP: bool = false;
static mut DEC_S: u32 = 0;
static mut DEC_S_PTR: usize = 0;
static mut DEC_S_COUNT: u32 = 0;
static mut CHILD_STEPS: u32 = 0;
static mut CHILD_OLD: u64 = 0;
static mut CHILD_NEW: u64 = 0;
static mut PARENT_STEPS: u32 = 0;
static mut PARENT_OLD: u64 = 0;
static mut CHILD_LOADS_AFTER_DEC: u32 = 0; // loads of the child's word after my decrement (only a callee below the depth cap does that)
static mut PARENT_ENV_OFF: bool = false;   // harness switch: no interference on the parent's word
static mut CHILD_STEP_EPOCH: usize = 0;     // the clock when the child's word was updated
static mut LONG_CALLEE_ADVANCE: usize = 0; // how far the clock moves while a recursive call runs (it disposes an
                                           // arbitrarily long subtree and re-announces this thread's epoch every 128 nodes)
static mut PARENT_LOADS: u32 = 0;
static mut PARENT_FIRST: u64 = 0;      // the parent's word as first read by the call (its decision is taken on this stamp)

fn budget() -> u32 { match option_env!("VERIF_BUDGET") { Some("3") => 3, Some("1") => 1, _ => 2 } }
fn cell(a: &AtomicU64) -> *mut u64 { a as *const AtomicU64 as *mut u64 }

/// Environment on the two words this call touches.
///  child  (while the parent's link still owns a share): count >= 1, not destructed;
///  parent (a cascade child whose count I brought to zero; I am its pending attempt): anything but
///         DESTRUCTED — upgrades may re-increment it.
unsafe fn env(a: &AtomicU64) {
    let addr = cell(a) as usize;
    if BUDGET == 0 || !(addr == CHILD_WORD || (addr == PARENT_WORD && !PARENT_ENV_OFF)) || !kani::any::<bool>() { return; }
    BUDGET -= 1;
    let w: u64 = kani::any();
    let s = State::from_raw(w);
    kani::assume(s.strong() < (1 << 28) && s.weak() < (1 << 28) && stamp_ok(s.epoch() as usize, EPOCH));
    if addr == CHILD_WORD {
        kani::assume(CHILD_STEPS == 0);               // after my decrement the child is the callee's business
        kani::assume(s.strong() >= 1 && !s.destructed() && s.weak() >= 1);
    } else {
        let old = State::from_raw(*cell(a));
        kani::assume(s.destructed() == old.destructed());           // only I (the pending attempt / destructor) set it
        kani::assume(s.weak() >= 1);
        kani::assume(!old.weaked() || s.weaked());
    }
    *cell(a) = w;
}
unsafe fn mine(a: &AtomicU64, old: u64, new: u64) {
    let addr = cell(a) as usize;
    if old == new { return; }
    if addr == CHILD_WORD { CHILD_STEPS += 1; CHILD_OLD = old; CHILD_NEW = new; CHILD_STEP_EPOCH = EPOCH; }
    if addr == PARENT_WORD { PARENT_STEPS += 1; PARENT_OLD = old; }
}
fn x_load(a: &AtomicU64, _o: Ordering) -> u64 {
    unsafe {
        env(a);
        let v = *cell(a);
        if cell(a) as usize == PARENT_WORD { if PARENT_LOADS == 0 { PARENT_FIRST = v; } PARENT_LOADS += 1; }
        if cell(a) as usize == CHILD_WORD && CHILD_STEPS >= 1 { CHILD_LOADS_AFTER_DEC += 1; }
        v
    }
}
fn x_cas(a: &AtomicU64, cur: u64, new: u64, _s: Ordering, _f: Ordering) -> Result<u64, u64> {
    unsafe { env(a); let old = *cell(a); if old == cur { *cell(a) = new; mine(a, old, new); Ok(old) } else { Err(old) } }
}
fn x_fetch_add(a: &AtomicU64, v: u64, _o: Ordering) -> u64 { unsafe { env(a); let old = *cell(a); *cell(a) = old.wrapping_add(v); mine(a, old, old.wrapping_add(v)); old } }
fn x_fetch_sub(a: &AtomicU64, v: u64, _o: Ordering) -> u64 { unsafe { env(a); let old = *cell(a); *cell(a) = old.wrapping_sub(v); mine(a, old, old.wrapping_sub(v)); old } }

fn s_global_epoch() -> usize { unsafe { EPOCH } }
fn s_cs() -> Guard { Guard { local: core::ptr::null() } }
fn s_vec_new<T>() -> Vec<T> { Vec::with_capacity(2) }   // Kani models Vec::new() here with a nondeterministic capacity (DESIGN 3)
unsafe fn s_defer_unchecked<F, R>(_g: &Guard, f: F) where F: FnOnce() -> R {
    assert!(!IN_DEFER, "C15.defer.not_nested");
    IN_DEFER = true; let _ = f(); IN_DEFER = false;
    EPOCH += LONG_CALLEE_ADVANCE;
}
unsafe fn rec_try_destruct<T: RcObject>(ptr: *mut RcInner<T>) {
    assert!(IN_DEFER, "C02.cascade.destruct_of_recent_node_only_through_ebr_deferral");
    DEFERS += 1; DEFER_PTR = ptr as usize;
}
unsafe fn rec_dealloc<T>(ptr: *mut RcInner<T>) { DEALLOCS += 1; DEALLOC_PTR = ptr as usize; DEALLOC_AFTER_DROP = DROPS >= 1; }
unsafe fn rec_decrement_weak<T>(ptr: *mut RcInner<T>, guard: Option<&Guard>) {
    DEC_W += 1; DEC_W_PTR = ptr as usize; DEC_W_GUARDED = guard.is_some(); DEC_W_AFTER_DROP = DROPS >= 1;
}
unsafe fn rec_decrement_strong<T: RcObject>(ptr: *mut RcInner<T>, count: u32, guard: Option<&Guard>) {
    DEC_S += 1; DEC_S_PTR = ptr as usize; DEC_S_COUNT += count;
}

/// chain node: one outgoing edge
struct C { next: AtomicRc<C> }
impl Drop for C { fn drop(&mut self) { unsafe { DROPS += 1; DROPPED_WHO = self as *const C as usize; if POPS == 0 { POP_BEFORE_DROP = false; } } } }
unsafe impl RcObject for C {
    fn pop_edges(&mut self, out: &mut Vec<Rc<Self>>) {
        unsafe { POPS += 1; D_AT_POP = State::from_raw(*(PARENT_WORD as *const u64)).destructed(); }
        out.push(self.next.take());
    }
}
/// leaf node: no outgoing edge
struct Leaf;
impl Drop for Leaf { fn drop(&mut self) { unsafe { DROPS += 1; if POPS == 0 { POP_BEFORE_DROP = false; } } } }
unsafe impl RcObject for Leaf {
    fn pop_edges(&mut self, _out: &mut Vec<Rc<Self>>) {
        unsafe { POPS += 1; D_AT_POP = State::from_raw(*(PARENT_WORD as *const u64)).destructed(); }
    }
}

macro_rules! dispose_harness {
    ($(#[$m:meta])* fn $name:ident() $body:block) => {
        #[kani::proof]
        #[kani::stub(std::sync::atomic::Atomic::<u64>::load, x_load)]
        #[kani::stub(std::sync::atomic::Atomic::<u64>::fetch_add, x_fetch_add)]
        #[kani::stub(std::sync::atomic::Atomic::<u64>::fetch_sub, x_fetch_sub)]
        #[kani::stub(std::sync::atomic::Atomic::<u64>::compare_exchange, x_cas)]
        #[kani::stub(crate::ebr_impl::global_epoch, s_global_epoch)]
        #[kani::stub(crate::ebr_impl::cs, s_cs)]
        #[kani::stub(Guard::defer_unchecked, s_defer_unchecked)]
        #[kani::stub(std::vec::Vec::new, s_vec_new)]
        #[kani::stub(RcInner::try_destruct, rec_try_destruct)]
        #[kani::stub(RcInner::dealloc, rec_dealloc)]
        #[kani::stub(RcInner::decrement_weak, rec_decrement_weak)]
        #[kani::stub(RcInner::decrement_strong, rec_decrement_strong)]
        #[kani::stub(crate::ebr_impl::internal::Local::unpin, crate::ebr_impl::internal::verif_cut::s_unpin_unreachable)]
        $(#[$m])*
        fn $name() { #[allow(unused_unsafe)] unsafe { $body } }
    };
}

/// stamps are 4-bit field values of epochs <= c + 1 (what the code can have stored)
fn stamp_ok(s: usize, c: usize) -> bool { s < (1 << EPOCH_WIDTH) && (c + 1 >= (1 << EPOCH_WIDTH) || s <= c + 1) }
/// newest of three stamps in the window ending at c + 2 (independent restatement of Modular::max)
fn newest(c: usize, a: u32, b: u32, d: u32) -> u32 {
    let w = 1usize << EPOCH_WIDTH;
    let dist = |x: u32| (c + 2 + w - (x as usize % w)) % w;     // 0 = stamp of c + 2 (newest possible)
    let mut r = a;
    if dist(b) < dist(r) { r = b; }
    if dist(d) < dist(r) { r = d; }
    r
}

dispose_harness! {
/// (a) chain node at depth 1023: one full level of the cascade.
#[kani::unwind(7)]
fn dispose_chain_level() {
    EPOCH = kani::any();
    kani::assume(EPOCH < (1usize << 62));
    let c = EPOCH;
    // child: count cs >= 1 (one share is the parent's link), stamp ce
    let child = RcInner::alloc(C { next: AtomicRc::null() }, 1);
    let cs_: u32 = kani::any(); kani::assume(cs_ >= 1 && cs_ < (1 << 28));
    let ce: usize = kani::any(); kani::assume(stamp_ok(ce, c));
    let child_weaked: bool = kani::any();
    *cell(&(*child).state) = State::from_raw(WEAK_COUNT).add_strong(cs_).with_epoch(ce).with_weaked(child_weaked).as_raw();
    // link: timestamp le, any tag
    let le: usize = kani::any(); kani::assume(stamp_ok(le, c));
    let link = Raw::from(child).with_high_tag(le).with_tag(kani::any());
    // parent: a cascade child whose count was just brought to zero by ITS parent's cascade
    let parent = RcInner::alloc(C { next: AtomicRc::from(Rc::from_raw(link)) }, 1);
    let pe: usize = kani::any(); kani::assume(stamp_ok(pe, c));
    let weaked: bool = kani::any();
    let pw: u32 = kani::any(); kani::assume(pw >= 1 && pw < 1000 && (weaked || pw == 1));
    *cell(&(*parent).state) = State::from_raw(0).add_weak(pw).with_weaked(weaked).with_epoch(pe).as_raw();
    PARENT = parent as usize; PARENT_WORD = cell(&(*parent).state) as usize; CHILD_WORD = cell(&(*child).state) as usize;
    BUDGET = budget();
    let counter = Cell::new(kani::any::<usize>() % 4096);
    let guard = s_cs();
    dispose_general_node(parent, 1023, &counter, &guard);

    let pnow = State::from_raw(*cell(&(*parent).state));
    let cnow = State::from_raw(*cell(&(*child).state));
    let resurrected = DEC_S >= 1;          // the count was re-incremented before DESTRUCTED could be set
    let immediate = POPS >= 1;
    assert!(PARENT_LOADS >= 1, "C12.site.reads_the_node_word");
    let stamp_seen = State::from_raw(PARENT_FIRST).epoch();
    if resurrected {
        assert!(DEC_S == 1 && DEC_S_PTR == parent as usize && DEC_S_COUNT == 1, "C05.cascade.reincremented_node_hands_token_to_decrement");
        assert!(POPS == 0 && DROPS == 0 && DEFERS == 0 && !pnow.destructed() && CHILD_STEPS == 0, "C01.cascade.reincremented_node_not_destructed");
    } else if immediate {
        // ---- C12.site / C02: only a node whose stamp is classified old enough at the epoch read here
        assert!(old_enough(stamp_seen, c), "C12.site.immediate_only_if_stamp_old_enough");
        // ---- C05 / C04: destruction begins by setting DESTRUCTED with a CAS that observed a zero count
        assert!(D_AT_POP && pnow.destructed(), "C05.cascade.destructed_set_before_destruction");
        assert!(PARENT_STEPS == 1 && State::from_raw(PARENT_OLD).strong() == 0 && !State::from_raw(PARENT_OLD).destructed(), "C05.cascade.destructed_set_by_cas_observing_zero");
        assert!(POPS == 1 && DROPS == 1 && POP_BEFORE_DROP, "C04.cascade.pop_edges_then_drop_once_each");
        // ---- release of the implicit weak share
        if pnow.weaked() { assert!(DEC_W == 1 && DEC_W_PTR == parent as usize && DEC_W_GUARDED && DEC_W_AFTER_DROP && DEALLOCS == 0, "C03.cascade.weaked_node_releases_implicit_share"); }
        else { assert!(DEALLOCS == 1 && DEALLOC_PTR == parent as usize && DEALLOC_AFTER_DROP && DEC_W == 0, "C04.cascade.unweaked_node_freed_once_after_drop"); }
        // ---- the child: exactly one decrement, stamped with the newest of (parent, link, child)
        assert!(CHILD_STEPS == 1, "C06.cascade.child_decremented_exactly_once");
        let (co, cn) = (State::from_raw(CHILD_OLD), State::from_raw(CHILD_NEW));
        assert!(cn.strong() + 1 == co.strong() && cn.weak() == co.weak() && cn.weaked() == co.weaked() && cn.destructed() == co.destructed(), "C06.cascade.child_loses_exactly_the_link_share");
        assert!(cn.epoch() == newest(c, stamp_seen, le as u32, co.epoch()), "C02.cascade.child_stamp_is_newest_of_parent_link_child");
        if cn.strong() == 0 {
            // recursion made in this call (seen as the callee's depth-1024 re-defer on the CHILD)
            assert!(DEFERS == 1 && DEFER_PTR == child as usize, "C06.cascade.zero_child_handled_in_same_pass_with_depth_plus_one");
        } else {
            assert!(DEFERS == 0, "C06.cascade.shared_child_skipped_and_survives");
        }
        assert!(DROPPED_WHO != (*child).data() as *const C as usize, "C07.depth.child_at_1024_not_destructed_here");
        assert!(DEC_S == 0, "C01.cascade.no_other_decrement");
    } else {
        // ---- recent: exactly one deferred attempt on this node, nothing else touched
        assert!(!old_enough(stamp_seen, c), "C12.site.recent_only_if_stamp_not_old_enough");
        assert!(DEFERS == 1 && DEFER_PTR == parent as usize, "C02.cascade.recent_node_redeferred_exactly_once");
        assert!(DROPS == 0 && DEALLOCS == 0 && DEC_W == 0 && CHILD_STEPS == 0 && PARENT_STEPS == 0 && !pnow.destructed(), "C02.cascade.recent_node_untouched");
    }
    kani::cover!(immediate && cnow.strong() == 0, "cover.chain.immediate_child_zero");
    kani::cover!(immediate && cnow.strong() > 0 && BUDGET == 0, "cover.chain.skip_after_interference");
    kani::cover!(!immediate && !resurrected, "cover.chain.recent");
    kani::cover!(resurrected, "cover.chain.resurrected");
    kani::cover!(immediate && c < 10, "cover.chain.small_epoch");
    kani::cover!(immediate && pnow.weaked(), "cover.chain.weaked_parent");
}}

// ---- counting atomics for the depth-argument harness: no environment, no pointer comparison, so the
//      number of atomic accesses is a CONCRETE value for CBMC and a path is cut the moment it exceeds it.
static mut OPS: u32 = 0;
static mut OPS_LIMIT: u32 = 0;
unsafe fn op() {
    OPS += 1;
    // at depth 1023 the callee is AT the cap: it re-defers the zero child without touching any count word,
    // so the call makes exactly the accesses of one level.  One more access means the recursive call was
    // handed a depth below the cap (it is reading the child's word) - and failing here, on a concrete
    // counter, also keeps CBMC from unrolling further levels.
    assert!(OPS <= OPS_LIMIT, "C07.depth.recursive_call_passes_depth_plus_one");
}
fn y_load(a: &AtomicU64, _o: Ordering) -> u64 { unsafe { op(); *cell(a) } }
fn y_cas(a: &AtomicU64, cur: u64, new: u64, _s: Ordering, _f: Ordering) -> Result<u64, u64> {
    unsafe { op(); let old = *cell(a); if old == cur { *cell(a) = new; Ok(old) } else { Err(old) } }
}
fn y_fetch_add(a: &AtomicU64, v: u64, _o: Ordering) -> u64 { unsafe { op(); let old = *cell(a); *cell(a) = old.wrapping_add(v); old } }
fn y_fetch_sub(a: &AtomicU64, v: u64, _o: Ordering) -> u64 { unsafe { op(); let old = *cell(a); *cell(a) = old.wrapping_sub(v); old } }

/// (a'') the depth passed to the recursive call: at depth 1023 the callee must be AT the cap (1024).
#[kani::proof]
#[kani::stub(std::sync::atomic::Atomic::<u64>::load, y_load)]
#[kani::stub(std::sync::atomic::Atomic::<u64>::fetch_add, y_fetch_add)]
#[kani::stub(std::sync::atomic::Atomic::<u64>::fetch_sub, y_fetch_sub)]
#[kani::stub(std::sync::atomic::Atomic::<u64>::compare_exchange, y_cas)]
#[kani::stub(crate::ebr_impl::global_epoch, s_global_epoch)]
#[kani::stub(crate::ebr_impl::cs, s_cs)]
#[kani::stub(Guard::defer_unchecked, s_defer_unchecked)]
#[kani::stub(std::vec::Vec::new, s_vec_new)]
#[kani::stub(RcInner::try_destruct, rec_try_destruct)]
#[kani::stub(RcInner::dealloc, rec_dealloc)]
#[kani::stub(RcInner::decrement_weak, rec_decrement_weak)]
#[kani::stub(RcInner::decrement_strong, rec_decrement_strong)]
#[kani::stub(crate::ebr_impl::internal::Local::unpin, crate::ebr_impl::internal::verif_cut::s_unpin_unreachable)]
#[kani::unwind(7)]
fn dispose_recursion_depth_argument() {
    unsafe {
        // everything is concrete here (the depth argument does not depend on epochs or counts)
        EPOCH = 1000;
        let c = EPOCH;
        let child = RcInner::alloc(C { next: AtomicRc::null() }, 1);
        *cell(&(*child).state) = State::from_raw(WEAK_COUNT).add_strong(1).with_epoch((c - 7) % 16).as_raw();
        let link = Raw::from(child).with_high_tag((c - 6) % 16);
        let parent = RcInner::alloc(C { next: AtomicRc::from(Rc::from_raw(link)) }, 1);
        *cell(&(*parent).state) = State::from_raw(0).add_weak(1).with_epoch((c - 5) % 16).as_raw();   // 5 epochs old: immediate
        PARENT = parent as usize; PARENT_WORD = cell(&(*parent).state) as usize;
        // one level = parent: load, DESTRUCTED-CAS, load (weaked?) ; child: load, decrement-CAS
        OPS_LIMIT = 5;
        let counter = Cell::new(7usize);
        let guard = s_cs();
        dispose_general_node(parent, 1023, &counter, &guard);
        assert!(POPS == 1 && DROPS == 1 && OPS == 5, "C06.cascade.one_level_makes_exactly_its_accesses");
        assert!(State::from_raw(*cell(&(*child).state)).strong() == 0, "C06.cascade.child_brought_to_zero");
        assert!(DEFERS == 1 && DEFER_PTR == child as usize, "C07.depth.zero_child_at_cap_is_redeferred");
        assert!(counter.get() == 9, "C07.counter.shared_with_the_recursive_call");
    }
}

/// tree-shaped node: two outgoing edges, handed out in order (first, next)
struct C2 { first: AtomicRc<C2>, next: AtomicRc<C2> }
impl Drop for C2 { fn drop(&mut self) { unsafe { DROPS += 1; DROPPED_WHO = self as *const C2 as usize; if POPS == 0 { POP_BEFORE_DROP = false; } } } }
unsafe impl RcObject for C2 {
    fn pop_edges(&mut self, out: &mut Vec<Rc<Self>>) {
        unsafe { POPS += 1; D_AT_POP = State::from_raw(*(PARENT_WORD as *const u64)).destructed(); }
        out.push(self.first.take());
        out.push(self.next.take());
    }
}

dispose_harness! {
/// (a') a node with two edges whose FIRST edge is a (possibly tagged) null: the second, non-null
/// edge is still cascaded in this pass (a null edge is skipped, it does not end the cascade).
#[kani::unwind(7)]
fn dispose_null_edge_then_child() {
    EPOCH = kani::any();
    kani::assume(EPOCH < (1usize << 62));
    let c = EPOCH;
    let child = RcInner::alloc(C2 { first: AtomicRc::null(), next: AtomicRc::null() }, 1);
    let cs_: u32 = kani::any(); kani::assume(cs_ >= 1 && cs_ < (1 << 28));
    let ce: usize = kani::any(); kani::assume(stamp_ok(ce, c));
    *cell(&(*child).state) = State::from_raw(WEAK_COUNT).add_strong(cs_).with_epoch(ce).as_raw();
    let le: usize = kani::any(); kani::assume(stamp_ok(le, c));
    let link = Raw::from(child).with_high_tag(le);
    let null_edge: Raw<C2> = Raw::null().with_tag(kani::any());
    let parent = RcInner::alloc(C2 { first: AtomicRc::from(Rc::from_raw(null_edge)), next: AtomicRc::from(Rc::from_raw(link)) }, 1);
    let pe: usize = kani::any(); kani::assume(stamp_ok(pe, c) && old_enough(pe as u32, c));   // the immediate case
    *cell(&(*parent).state) = State::from_raw(0).add_weak(1).with_epoch(pe).as_raw();
    PARENT = parent as usize; PARENT_WORD = cell(&(*parent).state) as usize; CHILD_WORD = cell(&(*child).state) as usize;
    BUDGET = 0;
    let counter = Cell::new(1usize);
    let guard = s_cs();
    dispose_general_node(parent, 1023, &counter, &guard);
    assert!(POPS == 1 && DROPS == 1, "C06.cascade.tree_node_destructed");
    assert!(CHILD_STEPS == 1, "C06.cascade.edge_after_a_null_edge_is_still_cascaded");
    let cn = State::from_raw(CHILD_NEW);
    assert!(cn.strong() + 1 == State::from_raw(CHILD_OLD).strong(), "C06.cascade.second_edge_child_loses_exactly_the_link_share");
    assert!(DEFERS == (cn.strong() == 0) as u32 && (DEFERS == 0 || DEFER_PTR == child as usize), "C06.cascade.second_edge_zero_child_handled_in_same_pass");
    assert!(DEC_S == 0, "C06.cascade.no_deferred_decrement_for_cascaded_edges");
    kani::cover!(cn.strong() == 0, "cover.tree.child_zero");
    kani::cover!(cn.strong() > 0, "cover.tree.child_shared");
}}

dispose_harness! {
/// (a''') a node with two edges.  Disposing the FIRST edge's subtree takes arbitrarily long: the
/// disposing thread re-announces its epoch every 128 nodes, so the clock moves by ANY amount while
/// this frame is alive, and meanwhile another thread - inside a critical section that is still
/// active - takes a Snapshot of the second child and unlinks it, leaving a fresh stamp.  The second
/// edge is judged against the clock as it is when its count is updated, not against the epoch
/// read on entry (defect F11: a stale window misreads the fresh stamp as the oldest one).
#[kani::unwind(7)]
fn dispose_second_edge_after_long_first_edge() {
    EPOCH = kani::any();
    kani::assume(EPOCH < (1usize << 61));
    let c0 = EPOCH;
    LONG_CALLEE_ADVANCE = kani::any(); kani::assume(LONG_CALLEE_ADVANCE < (1usize << 61));
    // first child: only the parent's link owns it, old stamps: it is cascaded (the recursive call)
    let child1 = RcInner::alloc(C2 { first: AtomicRc::null(), next: AtomicRc::null() }, 1);
    let ce1: usize = kani::any(); kani::assume(stamp_ok(ce1, c0));
    *cell(&(*child1).state) = State::from_raw(WEAK_COUNT).add_strong(1).with_epoch(ce1).as_raw();
    let le1: usize = kani::any(); kani::assume(stamp_ok(le1, c0));
    // second child: shared (count >= 1); the environment re-stamps it when its word is first read
    let child2 = RcInner::alloc(C2 { first: AtomicRc::null(), next: AtomicRc::null() }, 1);
    let cs2: u32 = kani::any(); kani::assume(cs2 >= 1 && cs2 < (1 << 28));
    let ce2: usize = kani::any(); kani::assume(stamp_ok(ce2, c0));
    *cell(&(*child2).state) = State::from_raw(WEAK_COUNT).add_strong(cs2).with_epoch(ce2).as_raw();
    let le2: usize = kani::any(); kani::assume(stamp_ok(le2, c0));
    let parent = RcInner::alloc(C2 { first: AtomicRc::from(Rc::from_raw(Raw::from(child1).with_high_tag(le1))),
                                     next: AtomicRc::from(Rc::from_raw(Raw::from(child2).with_high_tag(le2))) }, 1);
    let pe: usize = kani::any(); kani::assume(stamp_ok(pe, c0) && old_enough(pe as u32, c0));   // the immediate case
    *cell(&(*parent).state) = State::from_raw(0).add_weak(1).with_epoch(pe).as_raw();
    PARENT = parent as usize; PARENT_WORD = cell(&(*parent).state) as usize; PARENT_ENV_OFF = true; CHILD_WORD = cell(&(*child2).state) as usize;
    BUDGET = 1;
    let counter = Cell::new(1usize);
    let guard = s_cs();
    dispose_general_node(parent, 1023, &counter, &guard);
    let c1 = CHILD_STEP_EPOCH;
    assert!(POPS == 1 && DROPS == 1, "C06.cascade.tree_node_destructed");
    assert!(CHILD_STEPS == 1 && c1 == c0 + (State::from_raw(*cell(&(*child1).state)).strong() == 0) as usize * LONG_CALLEE_ADVANCE, "C06.cascade.second_edge_cascaded_after_the_first");
    let (co, cn) = (State::from_raw(CHILD_OLD), State::from_raw(CHILD_NEW));
    assert!(cn.strong() + 1 == co.strong(), "C06.cascade.second_edge_child_loses_exactly_the_link_share");
    // the stamp left on the child: the newest of (parent, link, child) IN THE WINDOW OF THE CLOCK AS IT IS NOW
    assert!(cn.epoch() == newest(c1, pe as u32, le2 as u32, co.epoch()), "C02.cascade.second_edge_stamp_judged_against_the_current_clock");
    // in particular a stamp written in the current epoch (a reader's critical section is still active) survives
    // (an old parent/link stamp may alias to a NEWER value of the 4-bit window - that errs to "too recent", C12 - so the
    //  merged stamp need not be the child's own; what matters is that it is still classified recent)
    if co.epoch() as usize == c1 % (1usize << EPOCH_WIDTH) { assert!(!old_enough(cn.epoch(), c1), "C02.cascade.fresh_stamp_on_a_later_edge_still_counts_as_recent_after_a_long_disposal"); }
    kani::cover!(LONG_CALLEE_ADVANCE >= 3 && co.epoch() as usize == c1 % (1usize << EPOCH_WIDTH) && BUDGET == 0, "cover.tree.fresh_stamp_after_long_first_edge");
    kani::cover!(LONG_CALLEE_ADVANCE == 0, "cover.tree.short_first_edge");
}}

dispose_harness! {
/// (c) the periodic re-announcement of long disposals (every 128 disposed nodes, C14 "long
/// disposals"): it must leave the announced epoch alone while a guard other than the collector's own
/// (the one `dispose` created, plus the one whose drop is running the collection) is alive on this
/// thread - a destructor may have created one and kept it (C16).
#[kani::unwind(7)]
fn dispose_periodic_reannouncement() {
    EPOCH = 1000;
    let gc: usize = kani::any(); kani::assume(gc >= 1 && gc <= 4);
    let collecting: bool = kani::any();
    kani::assume(gc >= 1 + collecting as usize);                 // dispose's own guard (+ the collection's)
    let global: usize = kani::any(); kani::assume(global & 1 == 0);
    let behind: bool = kani::any();
    let announced = (if behind { global.wrapping_sub(2) } else { global }) | 1;
    let guard = Guard::verif_cut_guard(gc, collecting, global, announced);
    let n = RcInner::alloc(Leaf, 1);
    *cell(&(*n).state) = State::from_raw(0).add_weak(1).with_destructed(true).with_epoch(kani::any::<usize>() % 16).as_raw();
    PARENT = n as usize; PARENT_WORD = cell(&(*n).state) as usize; BUDGET = 0;
    let k: usize = kani::any(); kani::assume(k < 1000);
    let at_period: bool = kani::any();
    let counter = Cell::new(k * 128 + if at_period { 0 } else { 1 + kani::any::<usize>() % 127 });
    dispose_general_node(n, 0, &counter, &guard);
    let foreign = gc > 1 + collecting as usize;
    if foreign { assert!(guard.verif_cut_announced() == announced, "C16.dispose.periodic_re_announcement_keeps_the_epoch_of_a_foreign_guard"); }
    if !at_period { assert!(guard.verif_cut_announced() == announced, "C14.dispose.re_announces_only_every_128_nodes"); }
    assert!(guard.verif_cut_announced() == announced || guard.verif_cut_announced() == (global | 1), "C14.dispose.re_announces_the_current_epoch_only");
    assert!(POPS == 1 && DROPS == 1, "C04.dispose.root_destructed");
    kani::cover!(!foreign && at_period && behind && guard.verif_cut_announced() == (global | 1), "cover.dispose.re_announced");
    kani::cover!(foreign && at_period && behind, "cover.dispose.foreign_guard_at_period");
}}

dispose_harness! {
/// (b) leaf node at any depth: root rule, depth cap, window decision.
#[kani::unwind(7)]
fn dispose_leaf_any_depth() {
    EPOCH = kani::any();
    kani::assume(EPOCH < (1usize << 62));
    let c = EPOCH;
    let depth: usize = kani::any();
    let n = RcInner::alloc(Leaf, 1);
    let pe: usize = kani::any(); kani::assume(stamp_ok(pe, c));
    let weaked: bool = kani::any();
    let pw: u32 = kani::any(); kani::assume(pw >= 1 && pw < 1000 && (weaked || pw == 1));
    // a root (depth 0) arrives with DESTRUCTED already set by try_destruct; deeper nodes do not
    *cell(&(*n).state) = State::from_raw(0).add_weak(pw).with_weaked(weaked).with_epoch(pe).with_destructed(depth == 0).as_raw();
    PARENT = n as usize; PARENT_WORD = cell(&(*n).state) as usize;
    BUDGET = if depth == 0 { 0 } else { budget() };
    let counter = Cell::new(kani::any::<usize>() % 4096);
    let guard = s_cs();
    dispose_general_node(n, depth, &counter, &guard);
    let now = State::from_raw(*cell(&(*n).state));
    let stamp_seen = State::from_raw(PARENT_FIRST).epoch();
    assert!(counter.get() >= 1, "C07.counter.bumped");
    if depth >= 1024 {
        assert!(DEFERS == 1 && DEFER_PTR == n as usize, "C07.depth.cap_redefers_exactly_once");
        assert!(POPS == 0 && DROPS == 0 && DEALLOCS == 0 && DEC_W == 0 && DEC_S == 0 && PARENT_STEPS == 0, "C07.depth.cap_touches_nothing_else");
    } else if DEC_S >= 1 {
        assert!(depth > 0 && DEC_S == 1 && DEC_S_PTR == n as usize && POPS == 0 && DROPS == 0 && DEFERS == 0 && !now.destructed(), "C05.cascade.reincremented_leaf_not_destructed");
    } else if POPS >= 1 {
        assert!(depth == 0 || old_enough(stamp_seen, c), "C12.site.leaf_immediate_only_if_root_or_old_enough");
        assert!(D_AT_POP && now.destructed(), "C05.cascade.leaf_destructed_set_before_destruction");
        assert!(POPS == 1 && DROPS == 1 && POP_BEFORE_DROP && DEFERS == 0, "C04.cascade.leaf_pop_then_drop_once_each");
        if now.weaked() { assert!(DEC_W == 1 && DEC_W_PTR == n as usize && DEC_W_GUARDED && DEC_W_AFTER_DROP && DEALLOCS == 0, "C03.cascade.leaf_weaked_releases_implicit_share"); }
        else { assert!(DEALLOCS == 1 && DEALLOC_PTR == n as usize && DEALLOC_AFTER_DROP && DEC_W == 0, "C04.cascade.leaf_unweaked_freed_once"); }
    } else {
        assert!(depth != 0, "C06.root.always_destructed_in_its_pass");
        assert!(!old_enough(stamp_seen, c), "C12.site.leaf_recent_only_if_not_old_enough");
        assert!(DEFERS == 1 && DEFER_PTR == n as usize && DROPS == 0 && DEALLOCS == 0 && DEC_W == 0 && !now.destructed(), "C02.cascade.leaf_recent_redeferred_exactly_once");
    }
    kani::cover!(depth == 0 && DROPS == 1, "cover.leaf.root");
    kani::cover!(depth == 1023 && DROPS == 1, "cover.leaf.deepest_immediate");
    kani::cover!(depth == 1024, "cover.leaf.cap");
    kani::cover!(depth > 5000, "cover.leaf.beyond_cap");
    kani::cover!(depth == 7 && DEFERS == 1, "cover.leaf.recent");
    kani::cover!(depth == 7 && DEC_S == 1, "cover.leaf.resurrected");
}}

dispose_harness! {
/// null node: nothing happens.
fn dispose_null() {
    let counter = Cell::new(5);
    let guard = s_cs();
    dispose_general_node(core::ptr::null_mut::<RcInner<Leaf>>(), kani::any(), &counter, &guard);
    assert!(counter.get() == 5 && DEFERS == 0 && POPS == 0 && DROPS == 0, "C04.dispose.null_is_noop");
}}

/// `dispose` (entry from try_destruct) starts the cascade at depth 0 on this very node.
#[kani::proof]
#[kani::stub(crate::ebr_impl::cs, s_cs)]
#[kani::stub(dispose_general_node, rec_dispose_general_node)]
#[kani::stub(crate::ebr_impl::internal::Local::unpin, crate::ebr_impl::internal::verif_cut::s_unpin_unreachable)]
fn dispose_entry() {
    unsafe {
        let n = RcInner::alloc(Leaf, 1);
        dispose(n);
        assert!(ENTRY_CALLS == 1 && ENTRY_PTR == n as usize && ENTRY_DEPTH == 0, "C06.dispose.enters_cascade_at_depth_zero");
    }
}
static mut ENTRY_CALLS: u32 = 0;
static mut ENTRY_PTR: usize = 0;
static mut ENTRY_DEPTH: usize = 0;
unsafe fn rec_dispose_general_node<T: RcObject>(ptr: *mut RcInner<T>, depth: usize, counter: &Cell<usize>, guard: &Guard) {
    ENTRY_CALLS += 1; ENTRY_PTR = ptr as usize; ENTRY_DEPTH = depth;
}

/// Chain induction over the one-level contract (pure arithmetic): a chain of n nodes, all old
/// enough, costs ceil(n / 1024) deferred attempts (grace periods) however long it is — a root
/// attempt destructs min(n, 1024) nodes and leaves at most one deferred attempt on the next node.
#[kani::proof]
fn c06_chain_induction_step() {
    let n: u64 = kani::any();          // nodes still to destruct when an attempt starts at its root
    kani::assume(n >= 1 && n < (1u64 << 40));
    let done = if n < 1024 { n } else { 1024 };           // depths 0..=1023 handled in this pass (contract (a)/(b))
    let left = n - done;                                  // node at depth 1024 re-deferred iff it exists (C07.depth.cap)
    let attempts = |m: u64| (m + 1023) / 1024;            // claimed number of attempts for m nodes
    assert!(done >= 1 && left < n, "C06.induction.progress");
    assert!(attempts(n) == 1 + attempts(left), "C06.induction.attempts_is_ceil_n_over_1024");
    assert!(attempts(n) <= n / 1024 + 1, "C06.induction.bound_small_constant_plus_n_over_1024");
    kani::cover!(n > 5000 && left > 0, "cover.induction.long_chain");
}
