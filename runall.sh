#!/bin/bash
# dev helper: run the quick check of every claimed property, print one line each
cd /verif
for id in "$@"; do
  s=$(date +%s); out=$(./check $id --tier ${TIER:-quick} 2>&1); rc=$?; e=$(date +%s)
  echo "$id rc=$rc $((e-s))s :: $(echo "$out" | tail -1)"
  echo "$out" | grep -E "^VIOLATION|^UNDECIDED|^KNOWN" | head -5
done
