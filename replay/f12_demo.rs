//! D1 (property C20): `Guard::reactivate` / `Guard::reactivate_after` panic when the guard was
//! obtained from `cs()` after the thread's participant handle (`HANDLE`) has been destroyed.
//!
//! `cs()` then falls back to a temporary registration whose `LocalHandle` is dropped as soon as
//! `cs()` returns, so the participant lives on with `handle_count == 0`, kept alive by the guard
//! alone.  `Local::repin` / `Guard::reactivate_after` call `Local::acquire_handle`, which asserts
//! `handle_count >= 1`.
use circ::cs;
use std::panic::{catch_unwind, AssertUnwindSafe};
use std::sync::atomic::{AtomicUsize, Ordering::SeqCst};

static REACTIVATE: AtomicUsize = AtomicUsize::new(0);
static REACTIVATE_AFTER: AtomicUsize = AtomicUsize::new(0);

struct Foo;

impl Drop for Foo {
    fn drop(&mut self) {
        // Runs after `HANDLE` has been dropped. None of this may panic.
        let r = catch_unwind(AssertUnwindSafe(|| {
            let mut g = cs();
            g.reactivate();
        }));
        REACTIVATE.store(if r.is_ok() { 1 } else { 2 }, SeqCst);

        let r = catch_unwind(AssertUnwindSafe(|| {
            let mut g = cs();
            g.reactivate_after(|| ());
        }));
        REACTIVATE_AFTER.store(if r.is_ok() { 1 } else { 2 }, SeqCst);
    }
}

thread_local! {
    static FOO: Foo = const { Foo };
}

#[test]
fn reactivate_while_exiting() {
    std::thread::spawn(|| {
        // Initialize `FOO` and then `HANDLE`: at thread exit `HANDLE` is dropped first.
        FOO.with(|_| ());
        drop(cs());
    })
    .join()
    .unwrap();

    assert_eq!(REACTIVATE.load(SeqCst), 1, "Guard::reactivate panicked in a TLS destructor");
    assert_eq!(
        REACTIVATE_AFTER.load(SeqCst),
        1,
        "Guard::reactivate_after panicked in a TLS destructor"
    );
}
