#!/usr/bin/env python3
"""Native demonstration of finding F1 (C01/C05): a Weak::upgrade preempted between the two
fetch_adds of `RcInner::increment_strong` while the pending `try_destruct` runs.

Usage: f1_demo.py <crate dir>      (a scratch copy of kaist-cp/circ; it is modified in place)
It inserts ONE test-only hook call at the point "an increment observed a zero count and is about to
add the actual reference" (located by the comment the code carries there) plus a #[cfg(test)] unit
test, and runs that test.  The hook lets the single test thread play the role of the second thread
at exactly that program point; everything else is the real code.
exit 0 = object stayed alive (property holds), exit 1 = object destructed under a live Rc."""
import re, subprocess, sys
crate = sys.argv[1]
p = crate + "/src/utils.rs"
s = open(p).read()
m = re.search(r"pub\(crate\) fn increment_strong\(&self\) -> bool \{.*?\n    \}\n", s, re.S)
body = m.group(0)
k = body.index("created a permission to run decrement again")
eol = body.index("\n", k)
# skip the rest of the comment block
while body[eol + 1:].lstrip().startswith("//"):
    eol = body.index("\n", eol + 1)
hook = "\n            #[cfg(test)]\n            f1_demo::between_increments();"
body2 = body[:eol] + hook + body[eol:]
s = s.replace(body, body2)
s += r'''
#[cfg(test)]
mod f1_demo {
    use crate::{cs, Rc, RcObject};
    use std::cell::RefCell;
    use std::sync::atomic::{AtomicUsize, Ordering::SeqCst};
    thread_local! { static HOOK: RefCell<Option<Box<dyn FnOnce()>>> = RefCell::new(None); }
    pub(super) fn between_increments() {
        if let Some(f) = HOOK.with(|h| h.borrow_mut().take()) { f() }
    }
    static DROPS: AtomicUsize = AtomicUsize::new(0);
    struct Node;
    impl Drop for Node { fn drop(&mut self) { DROPS.fetch_add(1, SeqCst); } }
    unsafe impl RcObject for Node { fn pop_edges(&mut self, _: &mut Vec<Rc<Self>>) {} }
    fn rounds(n: usize) { for _ in 0..n { let g = cs(); g.flush(); drop(g); } }

    #[test]
    fn upgrade_preempted_between_its_two_increments() {
        // k = number of collection rounds the "other thread" gets inside the window
        for k in 1..=12usize {
            let before = DROPS.load(SeqCst);
            let rc = Rc::new(Node);
            let w = rc.downgrade();
            drop(rc);                   // count 0, one try_destruct pending in EBR
            // "other thread": collection rounds, so that the pending try_destruct runs, finds the
            // permission added by upgrade's first fetch_add, consumes it and re-defers itself
            // (and, for larger k, runs again and destructs the object).
            HOOK.with(|h| *h.borrow_mut() = Some(Box::new(move || rounds(k))));
            let up = w.upgrade();
            HOOK.with(|h| *h.borrow_mut() = None);
            let at_return = DROPS.load(SeqCst) - before;
            match &up {
                // C05: a failed upgrade means destruction had begun
                None => assert_eq!(at_return, 1, "k={k}: upgrade failed although the object was never destructed"),
                Some(_) => {
                    assert_eq!(at_return, 0, "k={k}: C05 violated: upgrade returned Some for an object whose destructor already ran");
                    rounds(40);         // any number of epoch advances later ...
                    let drops = DROPS.load(SeqCst) - before;
                    assert_eq!(drops, 0, "k={k}: C01 violated: object destructed while the Rc returned by upgrade() is alive");
                }
            }
            println!("k={k}: upgrade -> {} ; destructor runs so far: {}", if up.is_some() { "Some" } else { "None" }, at_return);
            drop(up);
            rounds(40);
            assert_eq!(DROPS.load(SeqCst) - before, 1, "k={k}: exactly one destruction in the end");
        }
    }
}
'''
open(p, "w").write(s)
r = subprocess.run(["cargo", "test", "--offline", "--lib", "f1_demo", "--", "--nocapture", "--test-threads", "1"], cwd=crate)
sys.exit(1 if r.returncode else 0)
