// HEAD~1 ("bulk constructors refuse a count the field cannot represent") left out the third
// bulk constructor, Rc::weak_many::<N>: N = 2^29 is added to the 29-bit weak field unchecked.
use circ::{Rc, RcObject};

struct Leaf(u64);
unsafe impl RcObject for Leaf {
    fn pop_edges(&mut self, _: &mut Vec<Rc<Self>>) {}
}

const N: usize = 1 << 29;

#[test]
fn weak_many_with_unrepresentable_count() {
    // The result array is 4 GiB; give the thread a stack that can hold it (lazily committed).
    let t = std::thread::Builder::new().stack_size(24 << 30).spawn(|| {
        let rc = Rc::new(Leaf(7));
        // Either of: a panic (as new_many_iter now does), or N working Weaks, would be fine.
        let r = std::panic::catch_unwind(std::panic::AssertUnwindSafe(|| rc.weak_many::<N>()));
        let Ok(weaks) = r else { return };
        // C05/C10: a strong owner exists, so every returned Weak must upgrade.
        let up = weaks[0].upgrade();
        std::mem::forget(weaks); // do not touch the counters any more
        assert!(up.is_some(), "Weak from weak_many::<2^29> does not upgrade while its Rc is alive");
        assert_eq!(unsafe { rc.deref() }.0, 7);
    });
    t.unwrap().join().unwrap();
}
