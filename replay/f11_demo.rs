//! AUDIT D3 (properties C13 / C14, on the border to the reference-counting layer).
//!
//! `dispose_general_node` re-announces the epoch of the disposing thread every 128 disposed
//! nodes ("long disposals"), so the global epoch can advance by any amount while one frame of
//! the recursion is alive. But every frame computes its modular epoch window
//! (`Modular::new(curr_epoch + 1)`) once, before it recurses into its first child, and reuses it
//! for the remaining children. After the global epoch has moved by >= 3, a *fresh* stamp on the
//! next child's counter (somebody just removed that child from a shared slot inside a critical
//! section) is misread by the stale window as the *oldest* possible epoch, `modu.max` picks the
//! old stamp of the parent instead, the child's counter is re-stamped with that old epoch, and
//! the cascade reclaims the child immediately - although the critical section that unlinked it
//! (and still holds a `Snapshot` of it) is still active.
//!
//! History (T = this thread, P = peer; both only use the public API; P acts only on request,
//! requests are sent from `Drop` impls, so the history is deterministic):
//!
//!   root ---left---> chain of 512 nodes
//!        ---right--> victim <--- SLOT (a shared AtomicRc)
//!
//!   T: drops the last `Rc` to root; pin/flush/unpin until T's own collection disposes root.
//!   T: (inside that disposal) every chain node's destructor asks P for one pin/flush/unpin
//!      round (an epoch advance attempt). T re-announces every 128 nodes, so the epoch moves
//!      4-5 steps while root's frame is alive.
//!   P: (asked by the destructor of the last chain node) pins, loads a Snapshot of victim from
//!      SLOT, swaps SLOT to null and drops the old Rc (victim: 2 -> 1, stamped with the current
//!      epoch). P stays pinned.
//!   T: root's frame continues with its second edge: victim 1 -> 0, re-stamped with a stale
//!      epoch, and destroyed on the spot.
//!   P: still pinned, still holding the Snapshot: victim is gone.

use std::sync::atomic::{AtomicBool, Ordering};
use std::sync::mpsc::{channel, Receiver, Sender};
use std::sync::{Arc, Mutex};

use circ::{cs, AtomicRc, Rc, RcObject};

/// The tests share the process-wide default collector, so run them one at a time.
static SERIAL: Mutex<()> = Mutex::new(());

enum Cmd {
    /// One pin/flush/unpin round (tries to advance the epoch, collects).
    Advance,
    /// Pin, load a snapshot of the victim from the slot, unlink it, stay pinned.
    PinLoadUnlink,
    /// Report whether the victim has been destroyed; then unpin.
    CheckAndUnpin,
    Quit,
}

struct Ctx {
    to_peer: Mutex<Sender<Cmd>>,
    from_peer: Mutex<Receiver<()>>,
    root_dropped: AtomicBool,
    victim_dropped: AtomicBool,
}

impl Ctx {
    fn peer(&self, cmd: Cmd) {
        self.to_peer.lock().unwrap().send(cmd).unwrap();
        self.from_peer.lock().unwrap().recv().unwrap();
    }
}

#[derive(PartialEq)]
enum Role {
    Root,
    Chain { last: bool },
    Victim,
}

struct Node {
    left: AtomicRc<Node>,
    right: AtomicRc<Node>,
    role: Role,
    ctx: Arc<Ctx>,
}

unsafe impl RcObject for Node {
    fn pop_edges(&mut self, out: &mut Vec<Rc<Self>>) {
        out.push(self.left.take());
        out.push(self.right.take());
    }
}

impl Drop for Node {
    fn drop(&mut self) {
        match self.role {
            Role::Root => self.ctx.root_dropped.store(true, Ordering::SeqCst),
            Role::Chain { last: false } => self.ctx.peer(Cmd::Advance),
            Role::Chain { last: true } => self.ctx.peer(Cmd::PinLoadUnlink),
            Role::Victim => self.ctx.victim_dropped.store(true, Ordering::SeqCst),
        }
    }
}

fn node(role: Role, ctx: &Arc<Ctx>) -> Rc<Node> {
    let n = Rc::new(Node {
        left: AtomicRc::null(),
        right: AtomicRc::null(),
        role,
        ctx: ctx.clone(),
    });
    // Give the counter a genuine epoch stamp (a decrement stamps the current epoch), so that the
    // test does not depend on how the never-stamped value 0 relates to the absolute epoch.
    drop(n.clone());
    n
}

fn rounds(n: usize) {
    for _ in 0..n {
        let guard = cs();
        guard.flush();
        drop(guard);
    }
}

fn run(chain: usize) {
    let _serial = SERIAL.lock().unwrap_or_else(|e| e.into_inner());

    let (to_peer, peer_rx) = channel::<Cmd>();
    let (peer_tx, from_peer) = channel::<()>();
    let ctx = Arc::new(Ctx {
        to_peer: Mutex::new(to_peer),
        from_peer: Mutex::new(from_peer),
        root_dropped: AtomicBool::new(false),
        victim_dropped: AtomicBool::new(false),
    });

    // Move away from the first 16 epochs of the process: there, `Modular::trans` contains a
    // `debug_assert!(val <= self.max)` that happens to notice the stale window (it compares a
    // 4-bit stamp with the full epoch) and would turn this test into a panic inside a
    // destructor. From epoch 16 on that assertion is vacuous and the reclamation is silent.
    rounds(20);

    // Build the structure.
    let victim = node(Role::Victim, &ctx);
    let slot = Arc::new(AtomicRc::from(victim.clone()));
    let root = node(Role::Root, &ctx);
    {
        let guard = cs();
        let mut head = node(Role::Chain { last: true }, &ctx);
        for _ in 1..chain {
            let n = node(Role::Chain { last: false }, &ctx);
            n.as_ref().unwrap().left.store(head, Ordering::SeqCst, &guard);
            head = n;
        }
        let r = root.as_ref().unwrap();
        r.left.store(head, Ordering::SeqCst, &guard);
        r.right.store(victim, Ordering::SeqCst, &guard);
    }

    // Was the victim destroyed while the peer was pinned and held a snapshot of it?
    let violation = Arc::new(AtomicBool::new(false));

    let peer = {
        let slot = slot.clone();
        let ctx = ctx.clone();
        let violation = violation.clone();
        std::thread::spawn(move || {
            drop(cs()); // register
            peer_tx.send(()).unwrap();
            loop {
                match peer_rx.recv().unwrap() {
                    Cmd::Advance => rounds(1),
                    Cmd::PinLoadUnlink => {
                        let guard = cs();
                        let snapshot = slot.load(Ordering::SeqCst, &guard);
                        assert!(!snapshot.is_null());
                        // Remove the victim from the slot: 2 -> 1, stamped with the current epoch.
                        drop(slot.swap(Rc::null(), Ordering::SeqCst));
                        assert!(!ctx.victim_dropped.load(Ordering::SeqCst));
                        peer_tx.send(()).unwrap();

                        // Still in the critical section, still holding `snapshot`.
                        match peer_rx.recv().unwrap() {
                            Cmd::CheckAndUnpin => {}
                            _ => unreachable!(),
                        }
                        violation.store(ctx.victim_dropped.load(Ordering::SeqCst), Ordering::SeqCst);
                        // (Dereferencing `snapshot` here is a use-after-free on the unmodified crate.)
                        let _ = snapshot;
                        drop(guard);
                    }
                    Cmd::CheckAndUnpin => unreachable!(),
                    Cmd::Quit => break,
                }
                peer_tx.send(()).unwrap();
            }
        })
    };
    ctx.from_peer.lock().unwrap().recv().unwrap();

    // Let the stamps made so far become old (but not so old that the 4-bit stamps wrap: the
    // whole test spans about 12 epochs).
    rounds(4);

    // Retire root, then pin/flush/unpin until this thread's own collection disposes it (the peer
    // is idle, so nobody else can run the deferred destruction).
    drop(root);
    for _ in 0..64 {
        if ctx.root_dropped.load(Ordering::SeqCst) {
            break;
        }
        rounds(1);
    }
    assert!(ctx.root_dropped.load(Ordering::SeqCst));

    // The disposal of root (including the whole chain, and the request to the peer made by the
    // last chain node) happened inside the `Guard::drop` above. The peer is still pinned.
    ctx.peer(Cmd::CheckAndUnpin);
    ctx.to_peer.lock().unwrap().send(Cmd::Quit).unwrap();
    peer.join().unwrap();

    assert!(
        !violation.load(Ordering::SeqCst),
        "[chain of {}] the victim was unlinked inside a critical section of the peer and \
         destroyed by the cascade from root while that critical section (holding a Snapshot of \
         it) was still active",
        chain
    );
}

/// 512 nodes: the disposing thread re-announces 4 times while root's frame is alive.
#[test]
fn victim_unlinked_in_a_critical_section_outlives_it() {
    run(512);
}

/// Control (passes): with 100 nodes there is at most one re-announcement, the window of root's
/// frame is at most 2 epochs stale and still reads the fresh stamp correctly.
#[test]
fn control_short_chain() {
    run(100);
}
