//! AUDIT D6 (property C15, fault sequences; borderline - see notes.md).
//!
//! A user destructor that panics while it is run by a collection unwinds through
//! `Bag::drop`, `Global::collect` and `Local::unpin`:
//!   * the remaining deferred functions of that bag are dropped without being called (lost),
//!   * `Local::unpin` never gets to decrement `guard_count`, to clear the pinned bit or to reset
//!     `collecting`, so the participant stays pinned for ever - also after its thread has exited
//!     (`release_handle` sees `guard_count == 1` and never finalizes it). From then on the global
//!     epoch can advance at most once more: no deferred function of ANY thread ever runs again.

use std::sync::atomic::{AtomicUsize, Ordering};
use std::sync::Arc;

use circ::{cs, Rc, RcObject};

struct Obj {
    drops: Arc<AtomicUsize>,
    panics: bool,
}
unsafe impl RcObject for Obj {
    fn pop_edges(&mut self, _: &mut Vec<Rc<Self>>) {}
}
impl Drop for Obj {
    fn drop(&mut self) {
        if self.panics {
            panic!("a destructor panics");
        }
        self.drops.fetch_add(1, Ordering::SeqCst);
    }
}

fn rounds(n: usize) {
    for _ in 0..n {
        let guard = cs();
        guard.flush();
        drop(guard);
    }
}

#[test]
fn a_panicking_destructor_does_not_stop_reclamation() {
    // A thread retires one object whose destructor panics and ten ordinary ones, runs a few
    // pin/flush/unpin rounds (the panic surfaces from a `Guard::drop`) and thereby dies.
    let victims = Arc::new(AtomicUsize::new(0));
    let result = {
        let victims = victims.clone();
        std::thread::spawn(move || {
            drop(Rc::new(Obj {
                drops: victims.clone(),
                panics: true,
            }));
            for _ in 0..10 {
                drop(Rc::new(Obj {
                    drops: victims.clone(),
                    panics: false,
                }));
            }
            rounds(10);
        })
        .join()
    };
    assert!(result.is_err(), "the thread is expected to die from the panic");

    // A surviving thread retires an object and keeps pinning/flushing/unpinning.
    let survivor = Arc::new(AtomicUsize::new(0));
    drop(Rc::new(Obj {
        drops: survivor.clone(),
        panics: false,
    }));
    rounds(1000);

    assert_eq!(
        survivor.load(Ordering::SeqCst),
        1,
        "garbage of a surviving thread is never reclaimed any more"
    );
    assert_eq!(
        victims.load(Ordering::SeqCst),
        10,
        "the deferred functions that shared a bag with the panicking one were lost"
    );
}
