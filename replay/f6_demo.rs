// F6 candidate (C02/C05): Snapshot obtained by WeakSnapshot::upgrade() of an object whose only strong
// reference is the link of an already-dead parent: the cascade reclaims it at once under the upgrader.
use circ::*;
use std::sync::atomic::{AtomicUsize, Ordering::SeqCst};
use std::sync::mpsc::channel;

static DROPS: AtomicUsize = AtomicUsize::new(0);
struct Node { id: usize, next: AtomicRc<Node> }
impl Drop for Node { fn drop(&mut self) { if self.id == 2 { DROPS.fetch_add(1, SeqCst); } } }
unsafe impl RcObject for Node {
    fn pop_edges(&mut self, out: &mut Vec<Rc<Self>>) { out.push(self.next.take()); }
}
fn round() { let g = cs(); g.flush(); drop(g); }

#[test]
fn upgrade_of_object_held_only_by_dead_parent() {
    for iter in 0..96usize { let lag = 1 + iter % 3; if iter % 3 == 0 { round(); }
        let before = DROPS.load(SeqCst);
        let x = Rc::new(Node { id: 2, next: AtomicRc::null() });
        let w = x.downgrade();
        let p = Rc::new(Node { id: 1, next: AtomicRc::from(x) });   // X's only strong reference is P's link
        for _ in 0..40 { round(); }                                  // everything is old
        drop(p);                                                     // P: count 0, try_destruct deferred
        for _ in 0..lag { round(); }                                 // let the epoch move `lag` rounds (P may or may not be gone)
        let (to_u, from_t) = channel::<()>();
        let (to_t, from_u) = channel::<()>();
        let g = cs();                                                // T pins
        let ws = w.snapshot(&g);
        let snap = ws.upgrade();                                     // succeeds iff X not destructed
        let alive_at_upgrade = DROPS.load(SeqCst) == before;
        let u = std::thread::spawn(move || { from_t.recv().unwrap(); for _ in 0..40 { round(); } to_t.send(()).unwrap(); });
        to_u.send(()).unwrap();
        from_u.recv().unwrap();                                      // other thread collected 40 rounds while T stays pinned
        let destructed_now = DROPS.load(SeqCst) != before;
        if snap.is_some() && destructed_now { println!("HIT iter={iter}"); }
        if false { println!("lag={lag}: upgrade -> {} (alive at upgrade: {alive_at_upgrade}); destructed while T pinned: {destructed_now}", snap.is_some()); }
        if let Some(s) = snap {
            assert!(alive_at_upgrade);
            assert!(!destructed_now, "lag={lag}: C02 violated: object destructed while the Snapshot returned by WeakSnapshot::upgrade() is inside its critical section");
            let _ = s;
        }
        drop(g);
        u.join().unwrap();
        drop(w);
        for _ in 0..40 { round(); }
    }
}
