#!/usr/bin/env python3
"""Native demonstration of finding F8 (C14): `Global::try_advance` stores `successor(g)` of an epoch `g`
it read at its start; when it runs inside `unpin`'s collection loop and its registry scan unlinks a removed
participant, deferring that participant's destruction can overflow the caller's bag, and
`schedule_collection` then RE-ANNOUNCES the caller's epoch (because `collecting` is set).  Other
participants may now advance the clock past g+1, and the caller's final store moves it BACK.

Usage: f8_demo.py <crate dir>   (a scratch copy of kaist-cp/circ; modified in place)
Two test-only hook calls are inserted into try_advance (after its initial load; before its final store),
located by the statements the code carries there, plus a #[cfg(test)] unit test that plays the other
participant from inside the hooks on the same OS thread.  Everything else is the real code.
exit 0 = the clock never stepped back; exit 1 = it did."""
import re, subprocess, sys
crate = sys.argv[1]
p = crate + "/src/ebr_impl/internal.rs"
s = open(p).read()
m = re.search(r"pub\(crate\) fn try_advance\(&self, guard: &Guard\) -> Epoch \{.*?\n    \}\n", s, re.S)
body = m.group(0)
a = "let global_epoch = self.epoch.load(Ordering::Relaxed);"
assert a in body
body2 = body.replace(a, a + "\n        #[cfg(test)]\n        f8_demo::hook(1, guard.local as usize);", 1)
b = "let new_epoch = global_epoch.successor();"
assert b in body2
body2 = body2.replace(b, "#[cfg(test)]\n        f8_demo::hook(2, guard.local as usize);\n        " + b, 1)
c_ = "self.epoch.store(new_epoch, Ordering::Release);"
if c_ in body2:      # the pinned commit: a plain store
    body2 = body2.replace(c_, c_ + "\n        #[cfg(test)]\n        f8_demo::hook(0, guard.local as usize);", 1)
else:                # the repaired code: a compare_exchange whose result is the function's value
    d_ = "match self.epoch.compare_exchange("
    assert d_ in body2
    body2 = body2.replace(d_, "let __r = " + d_, 1)
    k = body2.rindex("        }\n    }\n")
    body2 = body2[:k] + "        };\n        #[cfg(test)]\n        f8_demo::hook(0, guard.local as usize);\n        __r\n    }\n"
s = s.replace(body, body2)
s += r'''
#[cfg(test)]
mod f8_demo {
    use super::*;
    use std::cell::RefCell;
    thread_local! { static HOOKS: RefCell<Vec<Option<Box<dyn FnOnce()>>>> = RefCell::new(vec![None, None, None]); }
    thread_local! { static ONLY_FOR: std::cell::Cell<usize> = std::cell::Cell::new(0); }
    pub(super) fn hook(i: usize, caller: usize) {
        if ONLY_FOR.with(|o| o.get()) != caller { return; }      // only A's own try_advance is intercepted
        if let Some(f) = HOOKS.with(|h| h.borrow_mut()[i].take()) { f() }
    }
    fn set_hook(i: usize, f: Box<dyn FnOnce()>) { HOOKS.with(|h| h.borrow_mut()[i] = Some(f)); }

    #[test]
    fn try_advance_never_moves_the_clock_backwards() {
        let collector = Collector::new();
        // registration order B, A, C => the registry is traversed C, A, B: A passes its own slot BEFORE it unlinks B
        let hb = collector.register();               // B: exits during A's scan
        let ha = collector.register();               // A: the caller under test
        let hc = collector.register();               // C: another advancer, played from the hooks
        // make C lag by one so that nothing advances the clock while A fills its bag
        let gc = hc.pin();
        { let g = ha.pin(); collector.global.try_advance(&g); }       // clock: 0 -> 1, C stays pinned in 0
        let ga = ha.pin();                                            // A pins in the current epoch (not lagging)
        let e = collector.global_epoch().value();
        assert_eq!(unsafe { (*ha.local).epoch.load(Ordering::Relaxed).value() }, e);
        // fill A's bag so that exactly ONE more deferral overflows it, with a collection already scheduled:
        // 65 deferrals = one overflow (schedules a collection), then 63 more = bag full again
        let cap = unsafe { MAX_OBJECTS };
        for _ in 0..(2 * cap) { unsafe { ga.defer_unchecked(|| ()) } }
        assert_eq!(collector.global_epoch().value(), e, "the clock stayed put while A filled its bag");
        drop(gc);                                                     // C leaves its critical section
        let c1 = collector.clone();
        let c2 = collector.clone();
        let hc = std::rc::Rc::new(hc);
        let (hc1, hc2) = (hc.clone(), hc.clone());
        let hb = RefCell::new(Some(hb));
        let top = std::rc::Rc::new(std::cell::Cell::new(0usize));
        let (t1, t2) = (top.clone(), top.clone());
        // hook 1: A has read g = e.  C advances the clock to e+1 (legal: A is pinned in e), then B exits.
        set_hook(1, Box::new(move || {
            let g = hc1.pin();
            c1.global.try_advance(&g);
            drop(g);
            t1.set(c1.global_epoch().value());
            drop(hb.borrow_mut().take());             // B's entry is now marked removed: A's scan will unlink it
        }));
        // hook 2: A's scan is done (it unlinked B, overflowed its bag and RE-ANNOUNCED itself at e+1).
        // C legally advances again: e+1 -> e+2.
        set_hook(2, Box::new(move || {
            let g = hc2.pin();
            c2.global.try_advance(&g);
            drop(g);
            t2.set(c2.global_epoch().value());
        }));
        // hook 0: right after A's own store - what does the clock read now?
        let c3 = collector.clone();
        let after_store = std::rc::Rc::new(std::cell::Cell::new(usize::MAX));
        let a1 = after_store.clone();
        set_hook(0, Box::new(move || { a1.set(c3.global_epoch().value()); }));
        ONLY_FOR.with(|o| o.set(ha.local as usize));
        drop(ga);                                     // outermost unpin: runs the scheduled collection -> try_advance
        let after = after_store.get();
        println!("A pinned in epoch {e}; the clock reached {} during A's try_advance; right after A's store it reads {after}", top.get());
        assert!(after == usize::MAX || after >= top.get(), "C14 violated: the global epoch stepped back from {} to {after}", top.get());
    }
}
'''
open(p, "w").write(s)
r = subprocess.run(["cargo", "test", "--offline", "--lib", "f8_demo", "--", "--nocapture", "--test-threads", "1"], cwd=crate)
sys.exit(1 if r.returncode else 0)
