// Native demonstrations (public API only, single-threaded, deterministic) of
//   F4 (C10): Rc::weak_many::<N>() adds N weak shares but returns N null Weaks
//   F5 (C10/C04): Rc::new_many::<0>() / Rc::new_many_iter(obj, 0) leave an object with zero owners that is never destructed
// copy to tests/ of a scratch copy of the crate and run: cargo test --offline --test f4_f5_demo -- --test-threads 1
use circ::*;
use std::sync::atomic::{AtomicUsize, Ordering::SeqCst};

static DROPS: AtomicUsize = AtomicUsize::new(0);
struct Node;
impl Drop for Node { fn drop(&mut self) { DROPS.fetch_add(1, SeqCst); } }
unsafe impl RcObject for Node { fn pop_edges(&mut self, _: &mut Vec<Rc<Self>>) {} }
struct Plain;   // used by the F4 test so that it does not disturb DROPS
unsafe impl RcObject for Plain { fn pop_edges(&mut self, _: &mut Vec<Rc<Self>>) {} }
fn rounds(n: usize) { for _ in 0..n { let g = cs(); g.flush(); drop(g); } }

#[test]
fn f4_weak_many_returns_weaks_to_the_receiver() {
    let rc = Rc::new(Plain);
    let ws: [Weak<Plain>; 3] = rc.weak_many::<3>();
    for w in &ws {
        assert!(!w.is_null(), "C10 violated: weak_many returned a null Weak");
        assert!(w.ptr_eq(&rc.downgrade()), "C10 violated: weak_many result does not refer to the receiver");
        assert!(w.upgrade().is_some());
    }
}

#[test]
fn f5_zero_owner_constructors_do_not_leak() {
    let before = DROPS.load(SeqCst);
    let arr: [Rc<Node>; 0] = Rc::new_many::<0>(Node);
    drop(arr);
    rounds(40);
    assert_eq!(DROPS.load(SeqCst) - before, 1, "C10/C04 violated: object created by new_many::<0> is never destructed");
    let it = Rc::new_many_iter(Node, 0);
    assert!(it.count() == 0);
    rounds(40);
    assert_eq!(DROPS.load(SeqCst) - before, 2, "C10/C04 violated: object created by new_many_iter(_, 0) is never destructed");
}
