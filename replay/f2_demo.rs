// Native demonstration (public API only, single-threaded, deterministic) of
//   F2 (C05/C01): a node destructed by the cascade (immediate recursive destruction of a child)
//   was not marked DESTRUCTED, so a later Weak::upgrade() returned Some(Rc) to an object whose
//   destructor had already run.
// copy to tests/ of a scratch copy of the crate and run: cargo test --offline --test f2_demo
use circ::*;
use std::sync::atomic::{AtomicUsize, Ordering::SeqCst};

static DROPS: AtomicUsize = AtomicUsize::new(0);
struct Node { id: usize, next: AtomicRc<Node> }
impl Drop for Node { fn drop(&mut self) { DROPS.fetch_add(1, SeqCst); } }
unsafe impl RcObject for Node {
    fn pop_edges(&mut self, out: &mut Vec<Rc<Self>>) { out.push(self.next.take()); }
}
fn rounds(n: usize) { for _ in 0..n { let g = cs(); g.flush(); drop(g); } }

#[test]
fn f2_upgrade_after_cascade_destruction_fails() {
    let child = Rc::new(Node { id: 2, next: AtomicRc::null() });
    let w = child.downgrade();
    let parent = Rc::new(Node { id: 1, next: AtomicRc::from(child) });
    rounds(40);                         // links and counts become old enough for immediate reclamation
    let before = DROPS.load(SeqCst);
    drop(parent);
    rounds(40);                         // parent destructed; child destructed in the same pass (cascade)
    assert_eq!(DROPS.load(SeqCst) - before, 2, "parent and child destructed");
    let up = w.upgrade();
    if let Some(rc) = &up { println!("upgrade returned Some; reading id of a destructed object: {}", rc.as_ref().unwrap().id); }
    assert!(up.is_none(), "C05 violated: upgrade() returned Some after the object's destructor ran");
}
