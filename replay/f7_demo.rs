//! NOT a mutant: side observation on the UNMODIFIED crate (commit bf837b6), found while looking
//! for C16 mutants. Copy to tests/ and run with `cargo test --offline --test <name>`: it FAILS on
//! the unmodified crate with "attempt to subtract with overflow" at src/ebr_impl/internal.rs:470.
//!
//! `Local::unpin` reads `guard_count` BEFORE running the scheduled collection and writes
//! `guard_count - 1` from that stale value AFTER it. If a destructor that runs during the
//! collection creates a guard and keeps it alive (here: in a thread-local), the stale write sets
//! the counter to 0 and the epoch is unpublished although that guard is live (property C16:
//! "... re-creating guards, including from within destructors that run during collection").
//! Dropping the guard later underflows the counter (debug: panic; release: wraps to usize::MAX,
//! i.e. the thread then never publishes an epoch again).
use circ::{cs, AtomicRc, Guard, Rc, RcObject};
use std::cell::RefCell;
use std::sync::atomic::Ordering::SeqCst;

thread_local! { static STASH: RefCell<Option<Guard>> = const { RefCell::new(None) }; }

struct Node;
impl Drop for Node {
    fn drop(&mut self) {
        STASH.with(|s| *s.borrow_mut() = Some(cs()));
    }
}
unsafe impl RcObject for Node {
    fn pop_edges(&mut self, _: &mut Vec<Rc<Self>>) {}
}

#[test]
fn guard_created_in_destructor_during_collection_is_forgotten_by_unpin() {
    let slot = AtomicRc::new(Node);
    {
        let g = cs();
        slot.store(Rc::null(), SeqCst, &g);
        g.flush();
    }
    for _ in 0..8 {
        let g = cs();
        g.flush();
    }
    let stashed = STASH.with(|s| s.borrow_mut().take());
    assert!(stashed.is_some(), "destructor ran during a collection");
    drop(stashed); // panics: attempt to subtract with overflow (guard_count was reset to 0)
}
