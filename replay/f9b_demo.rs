//! F9 (second half): a guard that a destructor creates during a collection and KEEPS alive
//! (here: leaked, with a Snapshot, into a thread-local) was re-announced by the collection loop of
//! `Local::unpin` after every round - single thread, public API only.
//!
//! The thread retires one `Stasher` and 60 `Flusher`s in 61 separate bags. When they expire, its own
//! collection (in `Guard::drop`) runs `Stasher::drop`, which opens a critical section, takes a
//! Snapshot of the victim, unlinks the victim (its destruction is deferred from inside that critical
//! section) and keeps guard + snapshot. The `Flusher`s keep the collection loop going (each one
//! schedules another round); every round advances the epoch and - on the unrepaired crate -
//! re-announces it for the thread, so a few rounds later the victim's bag expires and the victim is
//! destructed although the guard that protects its Snapshot is still alive (C16, C13, C02).
use circ::{cs, AtomicRc, Guard, Rc, RcObject, Snapshot};
use std::cell::RefCell;
use std::sync::atomic::{AtomicBool, Ordering::SeqCst};
use std::sync::OnceLock;

static SLOT: OnceLock<AtomicRc<Victim>> = OnceLock::new();
static VICTIM_DROPPED: AtomicBool = AtomicBool::new(false);
static DROPPED_UNDER_GUARD: AtomicBool = AtomicBool::new(false);
thread_local! {
    static STASH: RefCell<Option<(&'static Guard, Snapshot<'static, Victim>)>> = const { RefCell::new(None) };
}

struct Victim;
impl Drop for Victim {
    fn drop(&mut self) {
        VICTIM_DROPPED.store(true, SeqCst);
        if STASH.with(|s| s.borrow().is_some()) {
            DROPPED_UNDER_GUARD.store(true, SeqCst);
        }
    }
}
unsafe impl RcObject for Victim {
    fn pop_edges(&mut self, _: &mut Vec<Rc<Self>>) {}
}

struct Stasher;
impl Drop for Stasher {
    fn drop(&mut self) {
        let g: &'static Guard = Box::leak(Box::new(cs()));
        let slot = SLOT.get().unwrap();
        let snap = slot.load(SeqCst, g);
        assert!(!snap.is_null());
        STASH.with(|s| *s.borrow_mut() = Some((g, snap)));
        // unlink the victim inside this critical section: its destruction must wait for `g`
        drop(slot.swap(Rc::null(), SeqCst));
        g.flush();
    }
}
unsafe impl RcObject for Stasher {
    fn pop_edges(&mut self, _: &mut Vec<Rc<Self>>) {}
}

struct Flusher;
impl Drop for Flusher {
    fn drop(&mut self) {
        let g = cs();
        g.flush(); // schedules one more round of the running collection
    }
}
unsafe impl RcObject for Flusher {
    fn pop_edges(&mut self, _: &mut Vec<Rc<Self>>) {}
}

#[test]
fn guard_kept_by_a_destructor_keeps_its_epoch() {
    SLOT.set(AtomicRc::new(Victim)).ok().unwrap();
    {
        let outer = cs();
        drop(Rc::new(Stasher));
        outer.flush();
        for _ in 0..60 {
            drop(Rc::new(Flusher));
            outer.flush();
        }
    }
    for _ in 0..16 {
        let g = cs();
        g.flush();
        drop(g);
    }
    assert!(STASH.with(|s| s.borrow().is_some()), "the Stasher's destructor ran during a collection");
    assert!(
        !DROPPED_UNDER_GUARD.load(SeqCst),
        "the victim was destructed while the guard (and Snapshot) kept by the destructor was alive"
    );
    assert!(!VICTIM_DROPPED.load(SeqCst));
}
