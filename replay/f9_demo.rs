//! AUDIT D1 (properties C13 / C14 / C16).
//!
//! A destructor that runs during a collection (i.e. inside the outermost `Guard::drop` of its
//! thread) opens its own critical section with `cs()`, loads a `Snapshot` and then
//!   * variant `flush`:    calls the public `Guard::flush()`,
//!   * variant `rc_drops`: merely clones and drops an `Rc` 64 times (every 64th
//!     `decrement_strong` flushes internally), or
//!   * variant `overflow`: drops 65 `Rc`s whose count hits zero (local bag overflows).
//! All three end up in `Local::schedule_collection`, which - because `collecting` is set -
//! calls `repin_without_collect()` and thereby moves the announced epoch of the thread forward
//! although a guard created by the destructor is still alive. A peer can then advance the global
//! epoch arbitrarily far and reclaim the object the live `Snapshot` points to.
//!
//! Only the public API is used. The peer is a real second thread; the two threads are
//! sequenced with channels, so the history is deterministic.

use std::sync::atomic::{AtomicBool, AtomicUsize, Ordering};
use std::sync::mpsc::{channel, Receiver, Sender};
use std::sync::{Arc, Mutex};

use circ::{cs, AtomicRc, Rc, RcObject};

/// The tests share the process-wide default collector, so run them one at a time.
static SERIAL: Mutex<()> = Mutex::new(());

#[derive(Clone, Copy, PartialEq, Debug)]
enum Variant {
    Flush,
    RcDrops,
    Overflow,
}

/// The object that the destructor protects with a `Snapshot`.
struct Victim {
    dropped: Arc<AtomicBool>,
}
unsafe impl RcObject for Victim {
    fn pop_edges(&mut self, _: &mut Vec<Rc<Self>>) {}
}
impl Drop for Victim {
    fn drop(&mut self) {
        self.dropped.store(true, Ordering::SeqCst);
    }
}

/// Filler objects used to generate garbage.
struct Filler;
unsafe impl RcObject for Filler {
    fn pop_edges(&mut self, _: &mut Vec<Rc<Self>>) {}
}

enum Cmd {
    /// Replace the victim in the shared slot and drop the old `Rc` (count hits zero).
    Unlink,
    /// A few pin/flush/unpin rounds: each one tries to advance the epoch and collects.
    Advance,
    Quit,
}

struct Ctx {
    variant: Variant,
    slot: Arc<AtomicRc<Victim>>,
    victim_dropped: Arc<AtomicBool>,
    to_peer: Sender<Cmd>,
    from_peer: Receiver<()>,
    /// Set by the destructor: the victim was destroyed while the destructor's guard was alive.
    violation: Arc<AtomicBool>,
    rounds_used: Arc<AtomicUsize>,
    ran: Arc<AtomicBool>,
}

impl Ctx {
    fn peer(&self, cmd: Cmd) {
        self.to_peer.send(cmd).unwrap();
        self.from_peer.recv().unwrap();
    }
}

/// The object whose destructor calls back into the library.
struct Callback {
    ctx: Ctx,
}
unsafe impl RcObject for Callback {
    fn pop_edges(&mut self, _: &mut Vec<Rc<Self>>) {}
}
impl Drop for Callback {
    fn drop(&mut self) {
        self.ctx.ran.store(true, Ordering::SeqCst);
        critical_section(&self.ctx);
    }
}

/// An ordinary critical section of the public API. Returns after recording in `ctx.violation`
/// whether the victim was destroyed while the guard was alive.
fn critical_section(ctx: &Ctx) {
    let guard = cs();
    let snapshot = ctx.slot.load(Ordering::SeqCst, &guard);
    assert!(!snapshot.is_null());
    assert!(!ctx.victim_dropped.load(Ordering::SeqCst));

    // A peer unlinks the object we are looking at. Its destruction is deferred, and must not
    // happen before `guard` is dropped.
    ctx.peer(Cmd::Unlink);

    let keep = Rc::new(Filler);
    for round in 1..=16 {
        match ctx.variant {
            Variant::Flush => guard.flush(),
            Variant::RcDrops => {
                for _ in 0..64 {
                    drop(keep.clone());
                }
            }
            Variant::Overflow => {
                for _ in 0..65 {
                    drop(Rc::new(Filler));
                }
            }
        }
        ctx.peer(Cmd::Advance);
        if ctx.victim_dropped.load(Ordering::SeqCst) {
            // `guard` and `snapshot` are still alive here.
            ctx.violation.store(true, Ordering::SeqCst);
            ctx.rounds_used.store(round, Ordering::SeqCst);
            break;
        }
    }
    // (Dereferencing `snapshot` here would be a use-after-free on the unmodified crate.)
    let _ = snapshot;
    drop(guard);
}

fn run(variant: Variant, in_destructor: bool) {
    let _serial = SERIAL.lock().unwrap_or_else(|e| e.into_inner());

    let victim_dropped = Arc::new(AtomicBool::new(false));
    let slot = Arc::new(AtomicRc::new(Victim {
        dropped: victim_dropped.clone(),
    }));
    let violation = Arc::new(AtomicBool::new(false));
    let rounds_used = Arc::new(AtomicUsize::new(0));
    let ran = Arc::new(AtomicBool::new(false));

    let (to_peer, peer_rx) = channel::<Cmd>();
    let (peer_tx, from_peer) = channel::<()>();

    // The peer thread: only acts when told to.
    let peer = {
        let slot = slot.clone();
        let victim_dropped = victim_dropped.clone();
        std::thread::spawn(move || {
            drop(cs()); // register
            peer_tx.send(()).unwrap();
            for cmd in peer_rx {
                match cmd {
                    Cmd::Unlink => {
                        let old = slot.swap(
                            Rc::new(Victim {
                                dropped: Arc::new(AtomicBool::new(false)),
                            }),
                            Ordering::SeqCst,
                        );
                        drop(old);
                        assert!(!victim_dropped.load(Ordering::SeqCst));
                    }
                    Cmd::Advance => {
                        for _ in 0..4 {
                            let guard = cs();
                            guard.flush();
                            drop(guard);
                        }
                    }
                    Cmd::Quit => break,
                }
                peer_tx.send(()).unwrap();
            }
        })
    };
    from_peer.recv().unwrap();

    let ctx = Ctx {
        variant,
        slot: slot.clone(),
        victim_dropped: victim_dropped.clone(),
        to_peer: to_peer.clone(),
        from_peer,
        violation: violation.clone(),
        rounds_used: rounds_used.clone(),
        ran: ran.clone(),
    };
    if in_destructor {
        // This thread: retire a `Callback` and keep pinning/flushing/unpinning until our own
        // collection (in `Guard::drop`) runs its destructor. The peer is idle meanwhile.
        drop(Rc::new(Callback { ctx }));
        for _ in 0..64 {
            if ran.load(Ordering::SeqCst) {
                break;
            }
            let guard = cs();
            guard.flush();
            drop(guard);
        }
        assert!(ran.load(Ordering::SeqCst), "the destructor never ran");
    } else {
        // Control: the very same critical section, but not nested in a collection.
        critical_section(&ctx);
    }

    to_peer.send(Cmd::Quit).unwrap();
    peer.join().unwrap();

    assert!(
        !violation.load(Ordering::SeqCst),
        "[{:?}] an object unlinked during a critical section was destroyed while that critical \
         section (a guard created inside a destructor) was still active, after {} rounds",
        variant,
        rounds_used.load(Ordering::SeqCst)
    );
}

#[test]
fn guard_in_destructor_survives_flush() {
    run(Variant::Flush, true);
}

#[test]
fn guard_in_destructor_survives_64_rc_drops() {
    run(Variant::RcDrops, true);
}

#[test]
fn guard_in_destructor_survives_bag_overflow() {
    run(Variant::Overflow, true);
}

/// Controls: outside a collection the same critical sections are respected (these pass).
#[test]
fn control_guard_outside_destructor() {
    run(Variant::Flush, false);
    run(Variant::RcDrops, false);
    run(Variant::Overflow, false);
}
