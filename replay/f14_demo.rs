//! D1: every *failed* `Weak::upgrade` permanently adds 1 to the strong field of a
//! destructed object (`increment_strong` never undoes its `fetch_add`).  After 2^29 failed
//! upgrades the carry lands in the weak field, i.e. a phantom weak owner appears and the
//! block is never freed (C04).  No handle is ever leaked by the program.
use circ::*;
use std::alloc::{GlobalAlloc, Layout, System};
use std::sync::atomic::{AtomicIsize, Ordering::SeqCst};

static BLOCKS: AtomicIsize = AtomicIsize::new(0);
struct A;
unsafe impl GlobalAlloc for A {
    unsafe fn alloc(&self, l: Layout) -> *mut u8 {
        if l.align() == 64 { BLOCKS.fetch_add(1, SeqCst); }
        System.alloc(l)
    }
    unsafe fn dealloc(&self, p: *mut u8, l: Layout) {
        if l.align() == 64 { BLOCKS.fetch_sub(1, SeqCst); }
        System.dealloc(p, l)
    }
}
#[global_allocator]
static GA: A = A;

#[repr(align(64))]
struct Obj(#[allow(dead_code)] u64);
unsafe impl RcObject for Obj {
    fn pop_edges(&mut self, _: &mut Vec<Rc<Self>>) {}
}
fn collect() { for _ in 0..64 { let g = cs(); g.flush(); } }

fn run(failed_upgrades: u64) -> isize {
    let before = BLOCKS.load(SeqCst);
    let rc = Rc::new(Obj(1));
    let w = rc.downgrade();
    drop(rc);
    collect(); // the object is destructed now; the block lives on for `w`
    for _ in 0..failed_upgrades {
        assert!(w.upgrade().is_none());
    }
    drop(w);
    collect();
    BLOCKS.load(SeqCst) - before
}

#[test]
fn block_is_freed_after_failed_upgrades() {
    assert_eq!(run(1000), 0, "control: block must be freed");
    assert_eq!(run(1 << 29), 0, "block leaked after 2^29 failed upgrades");
}
