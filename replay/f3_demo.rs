// Native demonstration (public API only, single-threaded, deterministic) of
//   F3 (C09): AtomicWeak::compare_exchange / compare_exchange_tag compare the raw word, so an
//   `expected` WeakSnapshot whose internal epoch bits differ from the stored pointer's fails the
//   CAS although ptr_eq(expected, current) holds.
// copy to tests/ of a scratch copy of the crate and run: cargo test --offline --test f3_demo
use circ::*;
use std::sync::atomic::Ordering::SeqCst;

struct Node;
unsafe impl RcObject for Node { fn pop_edges(&mut self, _: &mut Vec<Rc<Self>>) {} }
fn rounds(n: usize) { for _ in 0..n { let g = cs(); g.flush(); drop(g); } }

#[test]
fn f3_expected_downgraded_from_a_snapshot_loaded_at_another_epoch() {
    let rc = Rc::new(Node);
    let strong_cell = AtomicRc::null();
    rounds(5);                                        // global epoch != 0 (mod 16)
    let g = cs();
    strong_cell.store(rc.clone(), SeqCst, &g);        // the stored pointer carries the write epoch
    let snap = strong_cell.load(SeqCst, &g);
    let weak_cell: AtomicWeak<Node> = AtomicWeak::from(rc.downgrade()); // stored without epoch bits
    let expected = snap.downgrade();                  // WeakSnapshot with the Snapshot's epoch bits
    assert!(expected.ptr_eq(weak_cell.load(SeqCst, &g)), "same pointer and tag as the cell content");
    let r = weak_cell.compare_exchange(expected, Weak::null(), SeqCst, SeqCst, &g);
    assert!(r.is_ok(), "C09 violated: compare_exchange failed although ptr_eq(expected, current)");
    // same for compare_exchange_tag
    let weak_cell2: AtomicWeak<Node> = AtomicWeak::from(rc.downgrade());
    let r2 = weak_cell2.compare_exchange_tag(expected, 1, SeqCst, SeqCst, &g);
    assert!(r2.is_ok(), "C09 violated: compare_exchange_tag failed although ptr_eq(expected, current)");
    assert_eq!(weak_cell2.load(SeqCst, &g).tag(), 1);
}
