//! AUDIT DEMO (d3): the 29-bit strong count silently overflows / is silently truncated.
//!
//! The count word gives 29 bits to the strong count (`STRONG_WIDTH`), directly below the weak
//! count, and the bulk constructors convert their `usize` argument with `as u32`.  Nothing checks
//! for overflow (std's `Arc` aborts), so plain safe code gets an object destructed under a live
//! `Rc`:
//!
//!  * `Rc::clone` + `mem::forget` 2^29 - 1 times (a few seconds) wraps the strong field;
//!  * `Rc::new_many_iter(obj, n)` with `n >= 2^29` initialises the field with `n mod 2^29`
//!    (and with `n mod 2^32` before that) without materialising `n` pointers.
//!
//! Run with `--release` (the first test needs ~2^29 atomic increments); in a debug build the
//! `debug_assert!(curr.strong() >= count)` of `decrement_strong` fires instead in some of them.

use std::mem::forget;
use std::sync::atomic::{AtomicBool, Ordering::SeqCst};
use std::sync::Arc;

use circ::{cs, Rc, RcObject};

struct Obj {
    dead: Arc<AtomicBool>,
}

unsafe impl RcObject for Obj {
    fn pop_edges(&mut self, _: &mut Vec<Rc<Self>>) {}
}

impl Drop for Obj {
    fn drop(&mut self) {
        self.dead.store(true, SeqCst);
    }
}

fn collect_rounds() {
    for _ in 0..16 {
        let g = cs();
        g.flush();
    }
}

/// C01: `rc3` is a live strong owner, yet the object is destructed.
#[test]
fn forgotten_clones_wrap_the_strong_count() {
    let dead = Arc::new(AtomicBool::new(false));
    let rc1 = Rc::new(Obj { dead: dead.clone() });
    let rc2 = rc1.clone();
    let rc3 = rc1.clone();
    // 3 + (2^29 - 3) owners make the 29-bit field read 0 (carrying into the weak count); the next
    // clone takes that for "zero with a pending destruction" and adds 2. The field now reads 2.
    for _ in 0..(1u64 << 29) - 2 {
        forget(rc1.clone());
    }
    // 2^29 + 1 strong owners exist.
    drop(rc1);
    drop(rc2);
    collect_rounds();
    let destructed = dead.load(SeqCst);
    forget(rc3); // (its drop would run into the debug assertion / underflow the word)
    assert!(
        !destructed,
        "the object was destructed while the Rc `rc3` (and 2^29 - 2 leaked owners) existed"
    );
}

/// C01: two yielded `Rc`s, 2^29 - 1 not-yet-yielded shares; dropping one `Rc` destructs the object.
#[test]
fn new_many_iter_count_is_truncated() {
    let dead = Arc::new(AtomicBool::new(false));
    let mut it = Rc::new_many_iter(Obj { dead: dead.clone() }, (1usize << 29) + 1);
    let a = it.next().unwrap();
    let b = it.next().unwrap();
    drop(a);
    collect_rounds();
    let destructed = dead.load(SeqCst);
    forget(b);
    forget(it);
    assert!(
        !destructed,
        "the object was destructed while the Rc `b` and the not-yet-yielded shares of the \
         bulk constructor existed"
    );
}

/// C04: all 2^29 shares are released, the object is never destructed (release build), resp. the
/// release trips `debug_assert!(curr.strong() >= count)` (debug build).
#[test]
fn new_many_iter_large_count_leaks() {
    let dead = Arc::new(AtomicBool::new(false));
    let it = Rc::new_many_iter(Obj { dead: dead.clone() }, 1usize << 29);
    drop(it);
    collect_rounds();
    assert!(
        dead.load(SeqCst),
        "all owners are gone and 16 collection rounds have passed, but the object was never destructed"
    );
}

/// C05 / C03: 2^29 weak owners carry out of the weak field into the WEAKED and DESTRUCTED flags:
/// `upgrade` fails although a strong owner exists and no destruction has begun.
#[test]
fn forgotten_weak_clones_wrap_the_weak_count() {
    let dead = Arc::new(AtomicBool::new(false));
    let rc = Rc::new(Obj { dead: dead.clone() });
    let w = rc.downgrade();
    assert!(w.upgrade().is_some());
    // weak field: 1 (implicit share of the strong side) + 1 (`w`) + (2^29 - 2) = 2^29.
    for _ in 0..(1u64 << 29) - 2 {
        forget(w.clone());
    }
    let up = w.upgrade();
    let ok = up.is_some();
    let destructed = dead.load(SeqCst);
    forget((up, w, rc));
    assert!(!destructed);
    assert!(
        ok,
        "Weak::upgrade failed although the Rc `rc` is alive and the destructor has not run"
    );
}
