//! F13: `Rc::new_many_iter(obj, count)` silently truncated `count` to the 29-bit strong field
//! (`count as u32`): with count = 2^29 + 1 the object was allocated with ONE owner while the
//! iterator hands out 2^29 + 1 of them, so dropping one yielded `Rc` destructs the object under the
//! others (use after free from safe code; needs no memory). A correct constructor either creates
//! exactly `count` owners or refuses the count.
use circ::{cs, Rc, RcObject};
use std::sync::atomic::{AtomicBool, Ordering::SeqCst};

static DROPPED: AtomicBool = AtomicBool::new(false);
struct Obj;
impl Drop for Obj {
    fn drop(&mut self) {
        DROPPED.store(true, SeqCst);
    }
}
unsafe impl RcObject for Obj {
    fn pop_edges(&mut self, _: &mut Vec<Rc<Self>>) {}
}

#[test]
fn new_many_iter_hands_out_what_it_counts() {
    let refused = std::panic::catch_unwind(|| {
        let mut it = Rc::new_many_iter(Obj, (1usize << 29) + 1);
        let a = it.next().unwrap();
        let b = it.next().unwrap();
        std::mem::forget(it); // the remaining shares are never released
        drop(a);
        for _ in 0..8 {
            let g = cs();
            g.flush();
        }
        assert!(!DROPPED.load(SeqCst), "the object was destructed although `b` (and 2^29-1 unyielded shares) still own it");
        std::mem::forget(b);
    });
    match refused {
        Ok(()) => {}
        Err(e) => {
            let msg = e.downcast_ref::<&str>().map(|s| s.to_string()).or_else(|| e.downcast_ref::<String>().cloned()).unwrap_or_default();
            assert!(msg.contains("too many owners"), "{msg}");
        }
    }
}
